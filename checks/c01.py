"""C01 -- dfs delivers each catalogued file's bytes exactly."""
import os

from hypothesis import strategies as st

from vlib import containers, disc, gen, runtool
from vlib.harness import CheckBase, Verdict

CHARS = [c for c in gen.DFS_CHARS if c != ord("/")]


@st.composite
def case_st(draw):
    two = draw(st.sampled_from([False, False, True]))
    if two:
        dd = draw(st.booleans())
        geoms = gen.GEOMS_DD if dd else gen.GEOMS_SD
        tracks, spt = draw(st.sampled_from(geoms))
        variants = ("acorn", "watford") if True else ()
        s0 = draw(gen.surface(variants=variants, geoms=[(tracks, spt)], chars=CHARS))
        s1 = draw(gen.surface(variants=variants, geoms=[(tracks, spt)], chars=CHARS))
        # both sides carry the same catalogue total so the geometry is unambiguous
        s1["volumes"][0]["total"] = s0["volumes"][0]["total"]
        for s in (s1,):
            tot = s["volumes"][0]["total"]
            for cat in s["volumes"][0]["cats"]:
                cat[:] = [e for e in cat if e["start"] + disc.sectors_of(e["length"]) <= tot]
        ext = "ddd" if dd else "dsd"
        surfaces = [s0, s1]
    else:
        s0 = draw(gen.surface(chars=CHARS))
        ext = "sdd" if s0["spt"] != 10 else "ssd"
        surfaces = [s0]
    return {"ext": ext, "surfaces": surfaces,
            "pick": draw(st.integers(0, 10 ** 6)), "asan": draw(st.integers(0, 9)) == 0}


class C01(CheckBase):
    pid = "C01"
    level = "exploration"
    variants = ("dbg", "asan")
    rule = ("generated: well-formed Acorn / Watford / Opus discs (layout-first, catalogue in descending "
            "start-sector order) in ssd/sdd/dsd/ddd containers; every catalogued file is read with "
            "`type --binary` and `extract-files`, a rotating subset with type/list/dump; oracle = the bytes the "
            "generator placed + documented renderings.  A case (disc) is non-trivial when it has a file whose "
            "length is not a multiple of 256, or >= 64 KiB, or start sector >= 0x100, or adjacent to another "
            "file, or in an Opus volume other than A, or on side 1; distinct = SHA-1 of the disc spec")
    assumptions = ("names drawn from the DFS character set minus '/', unique per volume up to case",
                   "catalogue entries in descending start-sector order; Watford second catalogue above the first",
                   "Opus volumes are a contiguous prefix of A-H, each <= 56 tracks",
                   "file bodies are expanded deterministically (SHAKE-256) from a drawn seed")
    min_nontrivial = {"quick": 100, "thorough": 1000}
    budget_s = {"quick": 50, "thorough": 900}

    def strategy(self, tier):
        return case_st()

    def examples(self, tier):
        return 1200 if tier == "quick" else 40000

    def sample(self, case):
        out = {"ext": case["ext"], "surfaces": []}
        for s in case["surfaces"]:
            out["surfaces"].append({"variant": s["variant"], "tracks": s["tracks"], "spt": s["spt"],
                                    "volumes": [{"label": v["label"], "total": v["total"],
                                                 "files": [(bytes([e["dir"]]) + b"." + e["name"]).decode("latin-1")
                                                           + " start=%X len=%X" % (e["start"], e["length"])
                                                           for e in disc.all_entries(v)][:8]}
                                                for v in s["volumes"]]})
        return out

    def judge(self, ctx, case):
        v = Verdict()
        variant = "asan" if case.get("asan") else "dbg"
        dfs = ctx.tool(variant, "dfs")
        surfaces = case["surfaces"]
        imgs = [disc.build_surface(s) for s in surfaces]
        if len(imgs) == 2:
            data = containers.interleaved(imgs[0], imgs[1], surfaces[0]["spt"])
        else:
            data = imgs[0]
        pick = case.get("pick", 0)
        with runtool.Sandbox("c01") as sb:
            img = sb.file("disc." + case["ext"], data)
            for si, s in enumerate(surfaces):
                drive = 0 if si == 0 else 2
                for vi, vol in enumerate(s["volumes"]):
                    vsel = "%d%s" % (drive, vol["label"] or "")
                    ents = disc.all_entries(vol)
                    self._classify(v, s, si, vi, vol, ents)
                    # extract-files: one execution per volume
                    dest = sb.mkdir("out-%d-%d" % (si, vi))
                    r = runtool.run([dfs, "--file", img, "--drive", vsel, "extract-files", dest], sb.path)
                    v.evaluations += 1
                    if self._bad_exit(v, r, "extract-files", vsel):
                        continue
                    for e in ents:
                        exp = disc.body_of(e)
                        base = e["name"].decode("latin-1") if e["dir"] == ord("$") else \
                            chr(e["dir"]) + "." + e["name"].decode("latin-1")
                        p = os.path.join(dest, base)
                        try:
                            with open(p, "rb") as fh:
                                got = fh.read()
                        except OSError as ex:
                            v.fail("C01/extract-missing", "extract-files did not create %r" % base,
                                   {"run": r.brief(), "error": str(ex)})
                            continue
                        if got != exp:
                            v.fail(self._key("extract", e, got, exp),
                                   "extract-files body of %r differs (got %d bytes, expected %d)" % (base, len(got), len(exp)),
                                   {"entry": e, "first_diff": _first_diff(got, exp)})
                    # type --binary for every file; type/list/dump for a rotating subset
                    for ei, e in enumerate(ents):
                        exp = disc.body_of(e)
                        fq = ":%s.%s.%s" % (vsel, chr(e["dir"]), e["name"].decode("latin-1"))
                        cmds = [("type --binary", ["type", "--binary", fq], exp)]
                        if (ei + pick) % max(1, len(ents) // 4 + 1) == 0:
                            cmds.append(("type", ["type", fq], disc.render_type(exp)))
                            cmds.append(("list", ["list", fq], disc.render_list(exp)))
                            cmds.append(("dump", ["dump", fq], disc.render_dump(exp)))
                            # unqualified form with --drive/--dir set to the file's own
                            cmds.append(("type --binary (defaults)",
                                         ["--drive", vsel, "--dir", chr(e["dir"]), "type", "--binary",
                                          "--", e["name"].decode("latin-1")], exp))
                        for label, args, want in cmds:
                            if args[0].startswith("--"):
                                argv = [dfs, "--file", img] + args
                            else:
                                argv = [dfs, "--file", img] + args
                            r = runtool.run(argv, sb.path)
                            v.evaluations += 1
                            if self._bad_exit(v, r, label, fq):
                                continue
                            if r.stdout != want:
                                v.fail(self._key(label.split()[0], e, r.stdout, want),
                                       "%s %s: stdout differs (got %d bytes, expected %d)" % (label, fq, len(r.stdout), len(want)),
                                       {"entry": e, "run": r.brief(), "first_diff": _first_diff(r.stdout, want)})
        return v

    def _key(self, what, e, got, want):
        return "C01/%s-mismatch" % what

    def _bad_exit(self, v, r, label, what):
        if r.timed_out:
            v.fail("C01/timeout", "%s %s timed out" % (label, what), r.brief())
            return True
        if r.signal is not None or r.status != 0:
            v.fail("C01/exit", "%s %s: exit status %s signal %s" % (label, what, r.status, r.signal), r.brief())
            return True
        return False

    def _classify(self, v, s, si, vi, vol, ents):
        ext = sorted((e["start"], e["start"] + disc.sectors_of(e["length"])) for e in ents if e["length"])
        adjacent = any(ext[i][1] == ext[i + 1][0] for i in range(len(ext) - 1))
        cl = []
        if any(e["length"] % 256 for e in ents):
            cl.append("len-not-multiple-of-256")
        if any(e["length"] >= 65536 for e in ents):
            cl.append("len>=64KiB")
        if any(e["start"] >= 0x100 and e["length"] for e in ents):
            cl.append("start>=0x100")
        if adjacent:
            cl.append("adjacent-files")
        if vi > 0 and ents:
            cl.append("opus-volume-not-A")
        if si == 1 and ents:
            cl.append("side-1")
        if any(e["length"] == 0 for e in ents):
            cl.append("zero-length-file")
        if len(ents) >= 31:
            cl.append("full-catalogue")
        cl.append("variant-" + s["variant"])
        cl.append("geom-%dx%d" % (s["tracks"], s["spt"]))
        v.classes.extend(cl)
        if any(c for c in cl if not c.startswith(("variant-", "geom-", "zero-", "full-"))):
            v.nontrivial = True


def _first_diff(a, b):
    n = min(len(a), len(b))
    for i in range(n):
        if a[i] != b[i]:
            return {"offset": i, "got": a[i:i + 16], "want": b[i:i + 16]}
    return {"offset": n, "got_len": len(a), "want_len": len(b)}


CHECK = C01()
