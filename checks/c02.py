"""C02 -- catalogue metadata reported exactly as encoded on the disc."""
import os
import re

from hypothesis import strategies as st

from vlib import containers, disc, gen, parse, runtool
from vlib.harness import CheckBase, Verdict

CHARS = [c for c in gen.DFS_CHARS if c != ord("/")]
UI = [None, "acorn", "watford", "opus"]
BOOT = ["off", "LOAD", "RUN", "EXEC"]


def ref_title(raw):
    raw = (bytes(raw) + b"\0" * 12)[:12]
    out = bytearray()
    for b in raw:
        if b == 0:
            break
        out.append(b & 0x7F)
    return bytes(out).rstrip(b" ")


@st.composite
def case_st(draw):
    s0 = draw(gen.surface(chars=CHARS, big_ok=draw(st.integers(0, 4)) == 0))
    ext = "sdd" if s0["spt"] != 10 else "ssd"
    return {"ext": ext, "surfaces": [s0], "curdir": draw(st.one_of(st.just(ord("$")), st.sampled_from(CHARS))),
            "vol": draw(st.integers(0, 7)), "asan": draw(st.integers(0, 9)) == 0}


def mixed_case(mixed):
    """One disc whose first entry carries the given mixed high-bits byte (None if not
    representable on a well-formed disc of <= 1023 sectors)."""
    exec_hi, len_hi, load_hi, start_hi = (mixed >> 6) & 3, (mixed >> 4) & 3, (mixed >> 2) & 3, mixed & 3
    if start_hi + len_hi > 3:
        return None
    start = max(2, start_hi << 8)
    length = (len_hi << 16) | (0 if len_hi else 0x123)
    probe = {"name": b"PROBE", "dir": ord("$"), "locked": bool(mixed & 1),
             "load": (load_hi << 16) | 0x1900, "exec": (exec_hi << 16) | 0x8023,
             "length": length, "start": start, "body": {"kind": "rand", "seed": mixed}}
    others = []
    end = start + disc.sectors_of(length)
    if end + 3 <= 1023:
        others.append({"name": b"AFTER", "dir": ord("A"), "locked": False, "load": 0x3FFFF, "exec": 0x20000,
                       "length": 0x1FF, "start": end + 1, "body": {"kind": "text", "seed": 1}})
    ents = sorted([probe] + others, key=lambda e: -e["start"])
    surf = {"variant": "acorn", "tracks": 80, "spt": 18, "fill": {"kind": "zero", "seed": 0},
            "volumes": [{"label": None, "title": b"MIXED %02X" % mixed, "cycle": mixed, "boot": mixed & 3,
                         "total": 1023, "cats": [ents]}]}
    return {"ext": "sdd", "surfaces": [surf], "curdir": ord("$"), "vol": 0, "asan": False, "enum": mixed}


class C02(CheckBase):
    pid = "C02"
    level = "exploration"
    variants = ("dbg", "asan")
    rule = ("enumerated: one disc per value of the mixed high-bits byte that is representable on a well-formed "
            "disc of <= 1023 sectors (160 of 256; exhaustive) + generated discs as for C01 with boundary-biased "
            "18-bit addresses, any lock bit, 0..31/62 entries, both Watford halves, every Opus volume, any --dir, "
            "all four --ui settings.  Oracle: own decoding of the fields the generator encoded (reference "
            "sign extension per doc/dfs.1, own CRC-16/XMODEM).  Non-trivial: a disc with an entry whose four 2-bit "
            "fields are not all equal, or an address in 0x20000-0x2FFFF, or names differing only in case/directory")
    assumptions = ("as C01; titles restricted to printable ASCII (top bit optional) because control characters "
                   "make any column parser ambiguous", "cycle number compared case-insensitively as two hex digits",
                   "cat cells are cut on the 20-column grid pinned by dfs/tests/test_cat.sh")
    exhaustive_note = ("all 160 mixed high-bits byte values expressible on a well-formed disc "
                       "(start_hi + len_hi <= 3), each on its own disc: info + .inf")
    min_nontrivial = {"quick": 100, "thorough": 1000}
    budget_s = {"quick": 45, "thorough": 900}

    def strategy(self, tier):
        return case_st()

    def examples(self, tier):
        return 1500 if tier == "quick" else 40000

    def enumerated(self, tier):
        for m in range(256):
            c = mixed_case(m)
            if c is not None:
                yield c

    def sample(self, case):
        s = case["surfaces"][0]
        return {"ext": case["ext"], "variant": s["variant"], "geom": [s["tracks"], s["spt"]],
                "curdir": chr(case["curdir"]),
                "volumes": [{"label": v["label"], "title": v["title"], "cycle": v["cycle"], "boot": v["boot"],
                             "entries": ["%s.%s %s load=%05X exec=%05X len=%05X start=%03X" % (
                                 chr(e["dir"]), e["name"].decode("latin-1"), "L" if e["locked"] else "-",
                                 e["load"], e["exec"], e["length"], e["start"]) for e in disc.all_entries(v)][:6]}
                            for v in s["volumes"]]}

    def judge(self, ctx, case):
        v = Verdict()
        dfs = ctx.tool("asan" if case.get("asan") else "dbg", "dfs")
        s = case["surfaces"][0]
        data = disc.build_surface(s)
        curdir = case["curdir"]
        double = s["spt"] != 10
        with runtool.Sandbox("c02") as sb:
            img = sb.file("disc." + case["ext"], data)
            # show-titles for the whole drive
            r = runtool.run([dfs, "--file", img, "show-titles", "0"], sb.path)
            v.evaluations += 1
            if not self._bad(v, r, "show-titles"):
                want = b"".join(b"0%s: %s\n" % ((vol["label"] or "").encode(), ref_title(vol["title"]))
                                for vol in sorted(s["volumes"], key=lambda v_: v_["label"] or ""))    # by letter
                if r.stdout != want:
                    v.fail("C02/show-titles", "show-titles output differs", {"got": r.stdout[:400], "want": want[:400]})
            vols = s["volumes"]
            chosen = {case["vol"] % len(vols), 0, len(vols) - 1}
            for vi in sorted(chosen):
                vol = vols[vi]
                vsel = "0" + (vol["label"] or "")
                ents = disc.all_entries(vol)
                self._classify(v, ents)
                # ---- info
                r = runtool.run([dfs, "--file", img, "--drive", vsel, "info", "#.*"], sb.path)
                v.evaluations += 1
                if not self._bad(v, r, "info"):
                    try:
                        got = parse.parse_info(r.stdout)
                    except ValueError as ex:
                        v.fail("C02/info-parse", str(ex), r.brief())
                        got = None
                    if got is not None:
                        want = [{"dir": e["dir"], "name": bytes(e["name"]), "locked": e["locked"],
                                 "load": disc.sign_extend18(e["load"]), "exec": disc.sign_extend18(e["exec"]),
                                 "length": e["length"], "start": e["start"]} for e in ents]
                        g2 = [{k: x[k] for k in want[0]} for x in got] if want else got
                        if len(got) != len(want):
                            v.fail("C02/info-count", "info printed %d lines for %d entries" % (len(got), len(want)),
                                   r.brief())
                        else:
                            for i, (g, w) in enumerate(zip(g2, want)):
                                if g != w:
                                    fields = [k for k in w if g[k] != w[k]]
                                    v.fail("C02/info-" + "+".join(fields),
                                           "info line %d differs in %s" % (i, fields), {"got": g, "want": w})
                                    break
                            for x in got:
                                if x["widths"][:3] != [6, 6, 6] or x["widths"][3] != 3:
                                    v.fail("C02/info-width", "unexpected field widths", {"line": x})
                                    break
                # ---- cat, every ui
                for ui in UI:
                    argv = [dfs, "--file", img, "--dir", chr(curdir)]
                    if ui:
                        argv += ["--ui", ui]
                    argv += ["cat", vsel]
                    r = runtool.run(argv, sb.path)
                    v.evaluations += 1
                    if self._bad(v, r, "cat"):
                        continue
                    eff_ui = ui or {"acorn": "acorn", "watford": "watford", "opus": "opus"}[s["variant"]]
                    self._check_cat(v, r, vol, ents, curdir, eff_ui, double, vsel)
                # ---- .inf files
                dest = sb.mkdir("out%d" % vi)
                r = runtool.run([dfs, "--file", img, "--drive", vsel, "--dir", chr(curdir), "extract-files", dest],
                                sb.path)
                v.evaluations += 1
                if not self._bad(v, r, "extract-files"):
                    for e in ents:
                        nm = e["name"].decode("latin-1")
                        base = nm if e["dir"] == curdir else chr(e["dir"]) + "." + nm
                        try:
                            with open(os.path.join(dest, base + ".inf"), "rb") as fh:
                                inf = fh.read()
                        except OSError as ex:
                            v.fail("C02/inf-missing", "no .inf for %r" % base, {"error": str(ex)})
                            continue
                        want = b"%s.%s %06X %06X %06X %sCRC=%04X\n" % (
                            bytes([e["dir"]]), e["name"], disc.sign_extend18(e["load"]),
                            disc.sign_extend18(e["exec"]), e["length"], b"Locked " if e["locked"] else b"",
                            disc.crc16_xmodem(disc.body_of(e)))
                        if inf.split() != want.split() or not inf.endswith(b"\n"):
                            v.fail("C02/inf-content", ".inf of %r differs" % base, {"got": inf, "want": want})
        return v

    def _check_cat(self, v, r, vol, ents, curdir, ui, double, vsel):
        try:
            pc = parse.parse_cat(r.stdout)
        except ValueError as ex:
            v.fail("C02/cat-parse", str(ex), r.brief())
            return
        hdr = pc["header"]
        title = ref_title(vol["title"])
        if not hdr:
            v.fail("C02/cat-header", "empty header", r.brief())
            return
        m = re.match(rb"^ ?" + re.escape(title) + rb" *\(([0-9A-Fa-f]{2})\)", hdr[0])
        if not m:
            v.fail("C02/cat-title", "title/cycle not found in first header line",
                   {"line": hdr[0], "title": title, "cycle": vol["cycle"]})
        elif int(m.group(1), 16) != vol["cycle"]:
            v.fail("C02/cat-cycle", "cycle shown as %r, catalogue has %02X" % (m.group(1), vol["cycle"]),
                   {"line": hdr[0]})
        head_text = b"\n".join(hdr)
        dens = {"acorn": (b"FM", b"MFM"), "watford": (b"Single density", b"Double density"),
                "opus": (b"Single density", b"Double density")}[ui][1 if double else 0]
        # the density word must appear in the first two header lines, as a word
        if not re.search(rb"(^|[ )])" + re.escape(dens) + rb"( |$)", b"\n".join(hdr[:2]), re.M):
            v.fail("C02/cat-density", "density %r not shown" % dens, {"header": hdr})
        opt = b"Option %d (%s)" % (vol["boot"], BOOT[vol["boot"]].encode())
        if opt not in head_text:
            v.fail("C02/cat-option", "boot option %r not shown" % opt, {"header": hdr})
        if (b"Drive " + vsel.encode()) not in head_text:
            v.fail("C02/cat-drive", "drive not shown", {"header": hdr})
        # ---- cells: multiset equality
        want = [((None if e["dir"] == curdir else e["dir"]), bytes(e["name"]), e["locked"]) for e in ents]
        got = sorted(pc["cells"], key=lambda c: (c[0] is not None, c[0] or 0, c[1], c[2]))
        want = sorted(want, key=lambda c: (c[0] is not None, c[0] or 0, c[1], c[2]))
        if got != want:
            v.fail("C02/cat-files", "cat lists %d cells, catalogue has %d entries (or they differ)" % (len(got), len(want)),
                   {"got": got[:10], "want": want[:10], "stdout": r.stdout[:600]})
            return
        # ---- order: current directory first, then directory and name case-insensitively

        def key(c):
            d = b"\0" if c[0] is None else bytes([c[0]]).lower()
            return (d, c[1].lower())
        keys = [key(c) for c in pc["cells"]]
        if any(keys[i] > keys[i + 1] for i in range(len(keys) - 1)):
            v.fail("C02/cat-order", "cat order is not (current dir, dir, name) case-insensitively",
                   {"cells": pc["cells"][:20]})
        if ui == "watford":
            t = [ln for ln in pc["trailer"] if b"files of" in ln]
            if t:
                m = re.match(rb"^(\d+) files of (\d+) on", t[0])
                if int(m.group(1)) != len(ents):
                    v.fail("C02/cat-count", "file count line wrong", {"line": t[0], "n": len(ents)})

    def _bad(self, v, r, label):
        if r.timed_out or r.signal is not None or r.status != 0:
            v.fail("C02/exit", "%s: exit %s signal %s timeout %s" % (label, r.status, r.signal, r.timed_out), r.brief())
            return True
        return False

    def _classify(self, v, ents):
        cl = []
        for e in ents:
            f = [(e["exec"] >> 16) & 3, (e["length"] >> 16) & 3, (e["load"] >> 16) & 3, (e["start"] >> 8) & 3]
            if len(set(f)) > 1:
                cl.append("mixed-fields-differ")
                break
        if any(0x20000 <= e["load"] <= 0x2FFFF or 0x20000 <= e["exec"] <= 0x2FFFF for e in ents):
            cl.append("address-2xxxx")
        names = {}
        for e in ents:
            names.setdefault(bytes(e["name"]).lower(), []).append(e["dir"])
        if any(len(d) > 1 for d in names.values()):
            cl.append("same-name-different-dir")
        if any(e["locked"] for e in ents):
            cl.append("locked")
        if len(ents) in (31, 62):
            cl.append("full")
        v.classes.extend(cl)
        if any(c in cl for c in ("mixed-fields-differ", "address-2xxxx", "same-name-different-dir")):
            v.nontrivial = True


CHECK = C02()
