"""C03 -- bbcbasic_to_text lists every well-formed program as doc/bbcbasic.5 defines."""
from hypothesis import strategies as st

from vlib import gen_basic, ref_basic as rb, runtool
from vlib.harness import CheckBase, Verdict

GOLDEN = "/repo/basic/testdata/golden-token-map.txt"


@st.composite
def case_st(draw):
    prog = draw(gen_basic.program())
    return {"prog": prog, "listo": draw(st.integers(0, 7)), "listo2": draw(st.integers(0, 7)),
            "asan": draw(st.integers(0, 5)) == 0}


class C03(CheckBase):
    pid = "C03"
    level = "exploration"
    variants = ("dbg", "asan")
    rule = ("generated: grammar-based tokenised programs (0-40 lines; boundary line numbers; items = single-byte "
            "tokens valid for the dialect, C6/C7/C8 extension pairs, PDP11 C8 rule, 0x8D line references over all "
            "65536 targets, ASCII runs, strings with bytes 0x01-0xFF incl. token bytes, REM, loop tokens with the "
            "FOR and REPEAT nesting kept >= 0) x 10 dialect names x LISTO 0-7 x file/stdin, compared byte-for-byte "
            "with a detokeniser transcribed from doc/bbcbasic.5; enumerated: every byte 0x01-0xFF alone on a line "
            "x 10 dialects.  Non-trivial: a program with a string containing a byte >= 0x80, or an extension/0x8D "
            "item, or nested loops, or a line number >= 32768; distinct = SHA-1 of (program, LISTO)")
    assumptions = ("reference token tables transcribed from doc/bbcbasic.5, cross-checked at start-up against "
                   "basic/testdata/golden-token-map.txt",
                   "0x7F outside strings is not generated for dialects other than ARM/Mac (doc says invalid, "
                   "the pinned golden map says identity)",
                   "indentation compared only on programs whose FOR and REPEAT nesting never goes negative "
                   "(the manual does not define negative indentation)",
                   "loop keywords are counted outside strings and outside 0x8D operands")
    exhaustive_note = "every byte 0x01-0xFF (except 0x0D) alone on a line, for each of the 10 dialect names"
    min_nontrivial = {"quick": 200, "thorough": 2000}
    budget_s = {"quick": 40, "thorough": 900}

    def prepare(self, builds):
        bad = rb.crosscheck_golden(GOLDEN)
        if bad:
            raise RuntimeError("reference token table disagrees with golden map: %s" % bad[:5])

    def strategy(self, tier):
        return case_st()

    def examples(self, tier):
        return 6000 if tier == "quick" else 200000

    def enumerated(self, tier):
        for dialect in rb.DIALECT_NAMES:
            for chunk in range(0, 256, 32):
                yield {"enum": True, "dialect": dialect, "bytes": list(range(max(1, chunk), chunk + 32))}

    def sample(self, case):
        if case.get("enum"):
            return case
        p = case["prog"]
        return {"dialect": p["dialect"], "listo": case["listo"],
                "lines": [[n, b] for n, b in p["lines"][:4]], "nlines": len(p["lines"])}

    def judge(self, ctx, case):
        v = Verdict()
        if case.get("enum"):
            return self._judge_enum(ctx, case, v)
        tool = ctx.tool("asan" if case.get("asan") else "dbg", "bbcbasic_to_text")
        p = case["prog"]
        dialect = p["dialect"]
        lines = [(n, bytes(b)) for n, b in p["lines"]]
        data = rb.serialise(dialect, lines)
        self._classify(v, dialect, lines)
        with runtool.Sandbox("c03") as sb:
            path = sb.file("prog.bbc", data)
            for listo, how in ((case["listo"], "file"), (case["listo"], "stdin"), (case["listo2"], "file")):
                want, neg = rb.listing(dialect, listo, lines)
                if neg:
                    v.skipped = "negative-indent"
                    continue
                if how == "file":
                    r = runtool.run([tool, "--dialect", dialect, "--listo", str(listo), path], sb.path)
                else:
                    r = runtool.run([tool, "--dialect=" + dialect, "--listo=%d" % listo, "-"], sb.path, stdin=data)
                v.evaluations += 1
                if r.timed_out or r.signal is not None or r.status != 0:
                    v.fail("C03/exit", "exit %s signal %s on a well-formed program (%s, listo %d, %s)"
                           % (r.status, r.signal, dialect, listo, how), r.brief())
                    continue
                if r.stdout != want:
                    key = "C03/listing"
                    if self._only_indent_differs(r.stdout, want):
                        key = "C03/indent"
                    v.fail(key, "listing differs (%s, listo %d, %s)" % (dialect, listo, how),
                           {"got": r.stdout[:600], "want": want[:600], "first_diff": _fd(r.stdout, want)})
        return v

    def _only_indent_differs(self, got, want):
        g = got.split(b"\n")
        w = want.split(b"\n")
        if len(g) != len(w):
            return False
        return all(a[:5] == b[:5] and a[5:].lstrip(b" ") == b[5:].lstrip(b" ") for a, b in zip(g, w))

    def _judge_enum(self, ctx, case, v):
        tool = ctx.tool("dbg", "bbcbasic_to_text")
        dialect = case["dialect"]
        d = rb.CANON[dialect]
        with runtool.Sandbox("c03e") as sb:
            for b in case["bytes"]:
                if b == 0x0D:
                    continue
                if b == 0x7F and d not in ("ARM", "Mac"):
                    continue
                lines = [(10, bytes([b]))]
                data = rb.serialise(dialect, lines)
                path = sb.file("p%02x.bbc" % b, data)
                r = runtool.run([tool, "--dialect", dialect, "--listo", "1", path], sb.path)
                v.evaluations += 1
                v.nontrivial = True
                try:
                    want, _ = rb.listing(dialect, 1, lines)
                except rb.Reject as ex:
                    if r.status in (None, 0) or not r.stderr:
                        v.fail("C03/enum-accepts-invalid", "byte %02X is invalid for %s (%s) but exit=%s"
                               % (b, dialect, ex, r.status), r.brief())
                    continue
                if r.status != 0 or r.stdout != want:
                    v.fail("C03/enum-token", "byte %02X in dialect %s: got %r want %r (exit %s)"
                           % (b, dialect, r.stdout, want, r.status), r.brief())
        return v

    def _classify(self, v, dialect, lines):
        cl = []
        d = rb.CANON[dialect]
        hi_in_str = ext = nested = False
        depth = 0
        for num, body in lines:
            ins = False
            i = 0
            while i < len(body):
                c = body[i]
                if ins:
                    if c >= 0x80:
                        hi_in_str = True
                    if c == 0x22:
                        ins = False
                elif c == 0x22:
                    ins = True
                elif c == 0x8D:
                    ext = True
                    i += 3
                elif c in (0xC6, 0xC7, 0xC8) and d in ("ARM", "Mac", "PDP11"):
                    ext = True
                elif c in (0xE3, 0xF5):
                    depth += 1
                    if depth >= 2:
                        nested = True
                elif c in (0xED, 0xFD):
                    depth -= 1
                i += 1
        if hi_in_str:
            cl.append("string-with-high-byte")
        if ext:
            cl.append("extension-or-8D")
        if nested:
            cl.append("nested-loops")
        if any(n >= 32768 for n, _ in lines):
            cl.append("lineno>=32768")
        cl.append("dialect-" + dialect)
        v.classes.extend(cl)
        v.nontrivial = len(cl) > 1


def _fd(a, b):
    n = min(len(a), len(b))
    for i in range(n):
        if a[i] != b[i]:
            return {"offset": i, "got": a[max(0, i - 8):i + 24], "want": b[max(0, i - 8):i + 24]}
    return {"offset": n, "got_len": len(a), "want_len": len(b)}


CHECK = C03()
