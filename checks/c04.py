"""C04 -- sector-dump containers map (drive, track, sector) to the documented offset."""
import os

from hypothesis import strategies as st

from vlib import containers, disc, runtool
from vlib.harness import CheckBase, Verdict

SLOTS_INTERESTING = [0, 1, 2, 3, 254, 255, 256, 509, 510, 14, 15, 16, 30, 31, 32, 47, 495, 496]


def blank_surface(tag, tracks, spt):
    """A surface that carries no recognisable catalogue at all (every sector self-describing)."""
    img = bytearray()
    for lba in range(tracks * spt):
        t, s = divmod(lba, spt)
        pat = ("<%s T%02d s%02d #%04d>" % (tag, t, s, lba)).encode()
        img += (pat * (256 // len(pat) + 1))[:256]
    img[256 + 5] = 0xFF        # "last entry" offset that is not a multiple of 8: certainly not a catalogue
    return bytes(img)


def marker_surface(tag, tracks, spt, total=None, with_file=True, empty_first=False, boot=0):
    """A surface with a valid (Acorn) catalogue and every other sector self-describing."""
    nsec = tracks * spt
    img = bytearray()
    for lba in range(nsec):
        t, s = divmod(lba, spt)
        pat = ("<%s T%02d s%02d #%04d>" % (tag, t, s, lba)).encode()
        img += (pat * (256 // len(pat) + 1))[:256]
    if total is None:
        total = nsec if nsec <= 1023 else 1023
    ents = []
    if with_file:
        # one file covering sectors 2..4 whose body is the marker content itself
        ents.append({"name": b"F", "dir": ord("$"), "locked": False, "load": 0, "exec": 0,
                     "length": 3 * 256 - 7, "start": 2, "body": {"kind": "rand", "seed": 0}})
    if with_file and empty_first:
        # a zero-length file catalogued just before F with the same start sector (legal: it occupies nothing)
        ents.insert(0, {"name": b"EMPTY", "dir": ord("$"), "locked": False, "load": 0, "exec": 0, "length": 0,
                        "start": 2, "body": {"kind": "rand", "seed": 0}})
    s0, s1 = disc.encode_catalog_pair(("M-" + tag).encode()[:12], 0x11, boot, total, ents)
    img[0:256] = s0
    img[256:512] = s1
    return bytes(img)


@st.composite
def case_st(draw):
    kind = draw(st.sampled_from(["one", "one", "inter", "inter", "mmb", "mmb", "one-trunc", "inter-trunc",
                                 "inter-blank1", "mmb-blank", "one-hdfs2"]))
    # the boot option shares byte 0x106 with the high bits of the sector count and the HDFS flags
    c = {"kind": kind, "pick": draw(st.integers(0, 10 ** 6)), "boot": draw(st.integers(0, 3))}
    if kind == "inter-blank1":
        # side 1 has no catalogue at all: the geometry then follows from side 0's catalogue alone
        dd = draw(st.booleans())
        c.update({"tracks": draw(st.sampled_from([35, 40, 80])), "spt": 18 if dd else 10, "ext": "ddd" if dd else "dsd"})
        return c
    if kind == "one-hdfs2":
        # the one two-sided NON-interleaved layout the prober does recognise: both catalogues carry the HDFS flag and
        # the HDFS "two sides" bit (sector count = 10 bits per side)
        dd = draw(st.booleans())
        c.update({"tracks": draw(st.sampled_from([35, 40] if dd else [35, 40, 80])), "spt": 18 if dd else 10,
                  "ext": "sdd" if dd else "ssd"})
        return c
    if kind == "mmb-blank":
        c["slots"] = [[draw(st.sampled_from([0, 1, 2, 255, 510])), 0x0F]]
        c["default_status"] = 0xFF
        c["policy"] = draw(st.sampled_from(["first", "physical"]))
        c["blank"] = True
        return c
    if kind.startswith(("one", "inter")):
        dd = draw(st.booleans())
        c["tracks"] = draw(st.sampled_from([35, 40, 80]))
        c["spt"] = 18 if dd else 10
        c["ext"] = {("one", False): "ssd", ("one", True): "sdd", ("inter", False): "dsd", ("inter", True): "ddd"}[
            (kind.split("-")[0], dd)]
        # 80 x 18 = 1440 sectors does not fit the 10-bit count: either the catalogue says 1023, or it uses the
        # "large disc" bit (bit 2 of byte 0x106 = bit 10 of the count)
        c["big_total"] = draw(st.booleans())
        if kind == "inter" and dd and draw(st.integers(0, 2)) == 0:
            # 16 sectors per track: recognised for an interleaved image when BOTH sides carry a catalogue (the
            # 18-sector candidates then fail the other-side test)
            c["spt"] = 16
            c["tracks"] = draw(st.sampled_from([40, 80]))
        # the same container gzip-compressed (the extension hints must survive the extra .gz)
        c["gz"] = draw(st.integers(0, 3)) == 0
        c["empty_first"] = draw(st.integers(0, 2)) == 0
        if kind.endswith("trunc"):
            c["cut_sectors"] = draw(st.integers(1, c["spt"] * 3))
            c["cut_bytes"] = draw(st.sampled_from([0, 0, 1, 128, 255]))
    else:
        n = draw(st.integers(1, 6))
        slots = draw(st.lists(st.one_of(st.sampled_from(SLOTS_INTERESTING), st.integers(0, 510)),
                              min_size=n, max_size=n, unique=True))
        c["slots"] = [[s, draw(st.sampled_from([0x00, 0x0F, 0x00, 0x0F, 0xF0, 0xFF]))] for s in slots]
        c["default_status"] = draw(st.sampled_from([0xFF, 0xF0]))
        c["policy"] = draw(st.sampled_from(["first", "physical"]))
    return c


class C04(CheckBase):
    pid = "C04"
    level = "exploration"
    variants = ("dbg", "asan")
    rule = ("generated marker discs (valid catalogue on every surface, every other sector self-describing "
            "'<side/slot Ttt sss #lba>') in .ssd/.sdd (1 side), .dsd/.ddd (interleaved, 2 sides) and .mmb (1-6 "
            "populated slots from {0-3, 14-16, 30-32, 47 (table-sector boundaries), 254-256, 495, 496, 509, 510, random}, status bytes 00/0F/F0/FF) containers, "
            "35/40/80 tracks x 10/18 sectors (and 40/80 x 16 for interleaved images), a quarter of them gzip-compressed, "
            "optionally truncated, incl. surfaces that carry no catalogue at all (blank "
            "side 1 of an 80-track .dsd, MMB slot marked present but holding junk) and two-sided NON-interleaved .ssd/.sdd "
            "whose catalogues carry the HDFS two-sides flag (the one such layout the prober recognises); for each attached drive dump-sector on tracks "
            "{0,1,mid,last} x all sectors, out-of-range track/sector, reads past a truncation point, type --binary "
            "of a file, cat on unformatted MMB slots.  Oracle: the documented offset formula evaluated on the file "
            "the generator wrote.  Non-trivial: a case that reads side 1, or a track >= 1 of an interleaved file, "
            "or an MMB slot >= 1")
    assumptions = ("16 sectors per track cannot be selected for a sector dump (18 is always preferred), so it is "
                   "covered by the flux-image check C05 only",
                   "two-sided NON-interleaved images are excluded by construction: known finding "
                   "C04/two-sided-noninterleaved (a probe is replayed on every run)",
                   "MMB status bytes other than 00/0F/F0/FF are not judged (doc/mmb.5 does not define them)")
    min_nontrivial = {"quick": 40, "thorough": 600}
    budget_s = {"quick": 40, "thorough": 900}

    def strategy(self, tier):
        return case_st()

    def examples(self, tier):
        return 400 if tier == "quick" else 12000

    def sample(self, case):
        return case

    # ------------------------------------------------------------------
    def judge(self, ctx, case):
        v = Verdict()
        dfs = ctx.tool("asan" if case["pick"] % 7 == 0 else "dbg", "dfs")
        with runtool.Sandbox("c04") as sb:
            if case["kind"] == "twoside-nonint":
                self._two_sided_nonint(v, dfs, sb, case)
            elif case["kind"] == "one-hdfs2":
                self._hdfs_two_sided(v, dfs, sb, case)
            elif case["kind"] in ("mmb", "mmb-blank"):
                self._mmb(v, dfs, sb, case)
            else:
                self._sd(v, dfs, sb, case)
        return v

    def _read_checks(self, v, dfs, sb, img, extra_opts, drive, tracks, spt, side_bytes, readable, label):
        """dump-sector over tracks {0,1,mid,last} x all sectors; side_bytes(lba) -> expected 256 bytes."""
        for t in sorted({0, 1, tracks // 2, tracks - 1}):
            for s in range(spt):
                lba = t * spt + s
                r = runtool.run([dfs] + extra_opts + ["--file", img, "dump-sector", str(drive), str(t), str(s)], sb.path)
                v.evaluations += 1
                if r.timed_out or r.signal is not None:
                    v.fail("C04/crash", "%s dump-sector %d %d %d: signal/timeout" % (label, drive, t, s), r.brief())
                    return
                if readable(lba):
                    want = disc.render_dump(side_bytes(lba))
                    if r.status != 0:
                        v.fail("C04/read-failed", "%s dump-sector %d %d %d failed" % (label, drive, t, s), r.brief())
                        return
                    if r.stdout != want:
                        v.fail("C04/wrong-sector", "%s dump-sector %d %d %d shows other data" % (label, drive, t, s),
                               {"got": r.stdout[:160], "want": want[:160]})
                        return
                else:
                    if r.status == 0 or r.stdout:
                        v.fail("C04/read-beyond-end", "%s dump-sector %d %d %d beyond the end of the data succeeded "
                               "or printed data" % (label, drive, t, s), r.brief())
                        return
                    if not r.stderr.strip():
                        v.fail("C04/silent", "failure without diagnostic", r.brief())
        # out of range track / sector
        for t, s in ((tracks, 0), (0, spt), (tracks + 7, spt - 1)):
            r = runtool.run([dfs] + extra_opts + ["--file", img, "dump-sector", str(drive), str(t), str(s)], sb.path)
            v.evaluations += 1
            if r.status == 0 or r.stdout or r.signal is not None:
                v.fail("C04/out-of-range", "%s dump-sector %d %d %d (outside the geometry) did not fail cleanly"
                       % (label, drive, t, s), r.brief())
            elif not r.stderr.strip():
                v.fail("C04/silent", "failure without diagnostic", r.brief())

    def _sd(self, v, dfs, sb, case):
        tracks, spt = case["tracks"], case["spt"]
        inter = case["kind"].startswith("inter")
        tot = tracks * spt if (case.get("big_total") and tracks * spt > 1023) else None
        if tot:
            v.classes.append("11-bit-sector-count")
        ef = bool(case.get("empty_first"))
        if ef:
            v.classes.append("zero-length-entry-before-file-at-same-sector")
        bo = case.get("boot", 0)
        sides = [marker_surface("side0", tracks, spt, total=tot, empty_first=ef, boot=bo)]
        blank1 = case["kind"] == "inter-blank1"
        if inter:
            sides.append(blank_surface("side1", tracks, spt) if blank1 else marker_surface("side1", tracks, spt, total=tot, empty_first=ef, boot=bo))
            data = containers.interleaved(sides[0], sides[1], spt)
        else:
            data = sides[0]
        if case["kind"].endswith("trunc"):
            cut = len(data) - case["cut_sectors"] * 256 + case["cut_bytes"]
            cut = max(cut, 24 * 256 * (2 if inter else 1))
            data = data[:cut]
            v.classes.append("truncated")
        if case.get("gz"):
            import gzip
            img = sb.file("img." + case["ext"] + ".gz", gzip.compress(data, 1))
            v.classes.append(case["ext"] + ".gz")
        else:
            img = sb.file("img." + case["ext"], data)
        v.classes.append(case["ext"])
        if spt == 16:
            v.classes.append("16-sectors-per-track")
        for si, side in enumerate(sides):
            drive = 0 if si == 0 else 2

            def offset(lba, si=si):
                if inter:
                    t, s = divmod(lba, spt)
                    return ((2 * t + si) * spt + s) * 256
                return lba * 256

            def side_bytes(lba, offset=offset):
                return data[offset(lba):offset(lba) + 256]

            def readable(lba, offset=offset):
                return offset(lba) + 256 <= len(data)
            self._read_checks(v, dfs, sb, img, [], drive, tracks, spt, side_bytes, readable,
                              "%s side %d" % (case["ext"], si))
            if blank1 and si == 1:
                v.classes.append("surface-without-catalogue")
                continue
            r = runtool.run([dfs, "--file", img, "type", "--binary", ":%d.$.F" % drive], sb.path)
            v.evaluations += 1
            want = data[offset(2):offset(2) + 256] + data[offset(3):offset(3) + 256] + data[offset(4):offset(4) + 256]
            want = want[:3 * 256 - 7]
            if r.status != 0 or r.stdout != want:
                v.fail("C04/file-read", "type --binary :%d.$.F differs from the bytes at the documented offsets" % drive,
                       r.brief())
        if inter:
            v.nontrivial = True
            v.classes.append("interleaved-track>=1+side1")

    def _hdfs_two_sided(self, v, dfs, sb, case):
        """Two-sided non-interleaved .ssd/.sdd whose catalogues say 'HDFS, two sides': side 1 immediately follows
        side 0 (dfs.1); sector level only (the two-sided HDFS file system itself is not supported by dfs)."""
        tracks, spt = case["tracks"], case["spt"]
        sides = []
        for tag in ("side0", "side1"):
            img = bytearray(marker_surface(tag, tracks, spt, total=tracks * spt, with_file=False, boot=case.get("boot", 0)))
            img[256 + 6] |= 0x0C
            sides.append(bytes(img))
        data = containers.noninterleaved(sides)
        img = sb.file("img." + case["ext"], data)
        v.nontrivial = True
        v.classes.append("two-sided-noninterleaved-hdfs-" + case["ext"])
        for si in (0, 1):
            base = si * tracks * spt * 256

            def side_bytes(lba, base=base):
                return data[base + lba * 256:base + lba * 256 + 256]
            self._read_checks(v, dfs, sb, img, [], 2 * si, tracks, spt, side_bytes, lambda lba: True,
                              "%s (HDFS two-sided flag) side %d" % (case["ext"], si))

    def _two_sided_nonint(self, v, dfs, sb, case):
        """Probe for the known finding: side 1 of a two-sided .ssd/.sdd must be attached as drive 2."""
        tracks, spt = case["tracks"], case["spt"]
        s0 = marker_surface("side0", tracks, spt)
        s1 = marker_surface("side1", tracks, spt)
        data = containers.noninterleaved([s0, s1])
        img = sb.file("img." + case["ext"], data)
        r = runtool.run([dfs, "--file", img, "dump-sector", "2", "1", "3"], sb.path)
        v.evaluations += 1
        v.nontrivial = True
        want = disc.render_dump(s1[(spt + 3) * 256:(spt + 4) * 256])
        if r.status != 0 or r.stdout != want:
            v.fail("C04/two-sided-noninterleaved",
                   "side 1 of a two-sided non-interleaved %s image is not readable as drive 2" % case["ext"], r.brief())

    def _mmb(self, v, dfs, sb, case):
        slots = {}
        imgs = {}
        for slot, status in case["slots"]:
            if status in (0x00, 0x0F):
                imgs[slot] = (blank_surface("slot%03d" % slot, 80, 10) if case.get("blank")
                              else marker_surface("slot%03d" % slot, 80, 10, total=800))
                if case.get("blank"):
                    v.classes.append("surface-without-catalogue")
                slots[slot] = (status, imgs[slot])
            else:
                slots[slot] = (status, None)
        path = os.path.join(sb.path, "arch.mmb")
        containers.write_mmb(path, slots, default_status=case["default_status"])
        size = os.path.getsize(path)
        opts = ["--drive-first"] if case["policy"] == "first" else []
        mult = 1 if case["policy"] == "first" else 2
        v.classes.append("mmb-" + case["policy"])
        with open(path, "rb") as fh:
            for slot, (status, img) in sorted(slots.items()):
                drive = slot * mult
                if img is not None:
                    base = containers.MMB_TABLE + slot * containers.MMB_SLOT

                    def side_bytes(lba, base=base):
                        fh.seek(base + lba * 256)
                        return fh.read(256)

                    def readable(lba, base=base):
                        return base + lba * 256 + 256 <= size
                    self._read_checks(v, dfs, sb, path, opts, drive, 80, 10, side_bytes, readable, "mmb slot %d" % slot)
                    if slot >= 1:
                        v.nontrivial = True
                        v.classes.append("mmb-slot>=1")
                    if slot >= 256:
                        v.classes.append("mmb-slot>=256")
                else:
                    for cmd in (["cat", str(drive)], ["dump-sector", str(drive), "0", "0"]):
                        r = runtool.run([dfs] + opts + ["--file", path] + cmd, sb.path)
                        v.evaluations += 1
                        if r.status == 0 or r.signal is not None or r.stdout:
                            v.fail("C04/mmb-unformatted-readable", "slot %d has status %02X but %s succeeded"
                                   % (slot, status, cmd[0]), r.brief())
                        elif cmd[0] == "cat" and b"formatted" not in r.stderr:
                            # "the disc in drive N is unformatted" and "failed to select drive N (is it
                            # formatted?)" both count as reporting the slot as unformatted
                            v.fail("C04/mmb-unformatted-message", "slot %d (status %02X) is not reported as unformatted"
                                   % (slot, status), r.brief())
                        elif not r.stderr.strip():
                            v.fail("C04/silent", "failure without diagnostic", r.brief())
                    v.classes.append("mmb-unformatted-slot")
            # a slot that is not in the table at all (default status)
            free = next(s for s in range(511) if s not in slots)
            r = runtool.run([dfs] + opts + ["--file", path, "cat", str(free * mult)], sb.path)
            v.evaluations += 1
            if r.status == 0 or r.stdout:
                v.fail("C04/mmb-unformatted-readable", "empty slot %d readable" % free, r.brief())


CHECK = C04()
