"""C05 -- HFE and HxC-MFM flux images yield the same sectors as the equivalent sector dump."""
from hypothesis import strategies as st

from vlib import disc, flux, gen, runtool
from vlib.harness import CheckBase, Verdict

CHARS = gen.PLAIN_CHARS


@st.composite
def layout_st(draw, encoding):
    if encoding == "FM":
        if draw(st.integers(0, 2)) == 0:
            return {}
        return {"gap1": draw(st.integers(10, 40)), "sync": draw(st.sampled_from([6, 6, 7, 9, 12])), "gap2": 11,
                "gap3": draw(st.integers(10, 40)), "index_mark": draw(st.booleans()),
                "gap0": draw(st.integers(8, 40))}
    if draw(st.integers(0, 2)) == 0:
        return {}
    return {"gap4a": draw(st.integers(0, 80)), "sync": draw(st.sampled_from([12, 12, 13, 16])), "gap2": 22,
            "gap3": draw(st.integers(12, 54)), "index_mark": draw(st.booleans()), "gap0": draw(st.integers(20, 80))}


@st.composite
def case_st(draw):
    kind = draw(st.sampled_from(["hfe1", "hfe1", "hfe3", "hfe3", "hfe3", "mfm"]))
    if kind == "mfm":
        encoding = "MFM"
    else:
        encoding = draw(st.sampled_from(["FM", "MFM"]))
    spt = 10 if encoding == "FM" else draw(st.sampled_from([18, 18, 16]))
    full = draw(st.integers(0, 14)) == 0
    nsides = draw(st.sampled_from([1, 1, 2]))
    variant = draw(st.sampled_from(["acorn", "acorn", "watford"]))
    if draw(st.integers(0, 7)) == 0:
        # Opus DDOS needs a full-size double-density disc (its volume table states the disc size): drawn on purpose,
        # in every flux container and mostly two-sided, since the plain draw above would reach it in ~0.1 % of cases
        kind = draw(st.sampled_from(["hfe1", "hfe3", "mfm"]))
        encoding, spt, full, variant = "MFM", 18, True, "opus"
        nsides = draw(st.sampled_from([1, 2, 2]))
        tracks = draw(st.sampled_from([35, 35, 35, 40]))          # (80 tracks x 2 sides costs four times as much)
    elif full:
        tracks = draw(st.sampled_from([35, 40, 80] if spt != 16 else [40]))
        if spt == 18 and draw(st.booleans()):
            variant = "opus"
    else:
        tracks = draw(st.integers(3, 6))
    surfaces = []
    for sd in range(nsides):
        if variant == "opus":
            s = draw(gen.surface(variants=("opus",), chars=CHARS, big_ok=False, opus_geoms=[(tracks, 18)]))
        else:
            nsec = tracks * spt
            total = min(nsec, 1023)
            lo = 4 if variant == "watford" else 2
            maxf = 62 if variant == "watford" else 31
            ents = draw(gen.entries_for(lo, total, min(maxf, 10), CHARS, None, True, full))
            if variant == "watford":
                k = draw(st.integers(0, min(31, len(ents))))
                k = max(k, len(ents) - 31)
                cats = [ents[k:], ents[:k]]
            else:
                cats = [ents]
            s = {"variant": variant, "tracks": tracks, "spt": spt,
                 "fill": {"kind": "rand", "seed": draw(st.integers(0, 999))},
                 "volumes": [{"label": None, "title": draw(gen.title_st()), "cycle": draw(st.integers(0, 255)),
                              "boot": draw(st.integers(0, 3)), "total": total, "cats": cats}]}
        surfaces.append(s)
    lay = draw(layout_st(encoding))
    perm_seed = draw(st.integers(0, 10 ** 6))
    order_kind = draw(st.sampled_from(["identity", "interleave", "skew", "random", "two-runs"]))
    ops = []
    if kind == "hfe3":
        for _ in range(draw(st.integers(0, 6))):
            k = draw(st.sampled_from(["nop", "setindex", "setbitrate", "skipbits", "skipbits"]))
            arg = draw(st.integers(0, 255))
            if k == "skipbits":
                arg = draw(st.integers(0, 7))
                if encoding == "FM":
                    arg &= 6          # the reader samples FM at fixed odd raw positions: even counts only
                # the skipped bits are "don't care": all 0, all 1 (then the byte looks like an opcode), or drawn
                arg |= draw(st.sampled_from([0, 0x7F, 0x7F, draw(st.integers(0, 127))])) << 3
            pos = draw(st.one_of(st.integers(0, 3000), st.sampled_from([0, 1, 254, 255, 256, 257, 511, 512, 767, 768])))
            ops.append([pos, k, arg, draw(st.integers(0, 2))])
    tb = None
    if draw(st.integers(0, 3)) == 0:
        nominal = 3125 if encoding == "FM" else 6250
        tb = nominal + draw(st.integers(-90, 180))
    return {"kind": kind, "encoding": encoding, "spt": spt, "tracks": tracks, "surfaces": surfaces, "layout": lay,
            "order": order_kind, "perm_seed": perm_seed, "ops": ops, "track_bytes": tb,
            "pick": draw(st.integers(0, 10 ** 6))}


def make_order(kind, seed, spt):
    def fn(t, sd):
        if kind == "identity":
            return list(range(spt))
        if kind == "interleave":
            step = 2 if spt % 2 else 3
            o, cur, used = [], 0, set()
            for _ in range(spt):
                while cur in used:
                    cur = (cur + 1) % spt
                o.append(cur)
                used.add(cur)
                cur = (cur + step) % spt
            return o
        if kind == "skew":
            k = (t * 3 + sd) % spt
            return list(range(k, spt)) + list(range(0, k))
        if kind == "two-runs":
            # exactly two ascending runs that are NOT a rotation of the identity (e.g. evens then odds): a subset
            # chosen from the drawn seed in ascending order, then the rest in ascending order, optionally rotated
            import hashlib
            h = hashlib.sha256(b"2r:%d:%d:%d" % (seed, t, sd)).digest()
            first = [i for i in range(spt) if (h[i % 32] >> (i // 32)) & 1] if seed % 3 else list(range(0, spt, 2))
            rest = [i for i in range(spt) if i not in first]
            o = first + rest
            if seed % 2:
                k = len(o) // 2
                o = o[k:] + o[:k]
            return o
        # pseudo-random permutation derived from the drawn seed
        import hashlib
        o = list(range(spt))
        h = hashlib.sha256(b"%d:%d:%d" % (seed, t, sd)).digest()
        for i in range(spt - 1, 0, -1):
            j = h[i % 32] % (i + 1)
            o[i], o[j] = o[j], o[i]
        return o
    return fn


class C05(CheckBase):
    pid = "C05"
    level = "exploration"
    variants = ("dbg", "asan")
    rule = ("generated discs (Acorn / Watford / Opus; FM 10 spt, MFM 16/18 spt; 1 or 2 sides; 3-6 tracks mostly, "
            "35/40/80 sometimes) written as per-side sector dumps AND as HFE v1 / HFE v3 / HxC MFM with drawn legal "
            "gap and sync lengths, index mark, physical sector order (identity / interleave / skew / permutation / two ascending runs such as evens-then-odds), "
            "track length +-3 %, and for v3 NOP/SETINDEX/SETBITRATE/SKIPBITS opcodes at drawn byte positions incl. "
            "block boundaries.  Oracle: stdout and exit status of info, type --binary, free, space, show-titles, "
            "dump-sector (same LBA), extract-files and (full-size discs) cat, sector-map on the flux image equal "
            "those on the sector dumps (both attached with --drive-first).  Non-trivial: non-identity sector order, "
            "non-nominal gaps, >= 1 v3 opcode inside a track, or a two-sided image")
    assumptions = ("'legal' layouts: sync runs nominal or longer, gaps within controller-legal ranges, ID head byte = side",
                   "FM tracks use even SKIPBITS counts only (the reader samples FM at fixed odd raw positions)",
                   "16-spt and short discs are compared by LBA (a sector dump is probed to 35/40/80 tracks x 10/18)")
    # (full-size flux images are slow to encode in Python: under heavy machine load a quick run judges ~150 cases)
    min_nontrivial = {"quick": 15, "thorough": 300}
    budget_s = {"quick": 60, "thorough": 1200}

    def strategy(self, tier):
        return case_st()

    def examples(self, tier):
        return 400 if tier == "quick" else 10000

    def sample(self, case):
        c = {k: case[k] for k in ("kind", "encoding", "spt", "tracks", "layout", "order", "ops", "track_bytes")}
        c["sides"] = len(case["surfaces"])
        c["variant"] = case["surfaces"][0]["variant"]
        return c

    def judge(self, ctx, case):
        v = Verdict()
        dfs = ctx.tool("asan" if case["pick"] % 6 == 0 else "dbg", "dfs")
        spt, tracks, enc = case["spt"], case["tracks"], case["encoding"]
        surfaces = case["surfaces"]
        imgs = [disc.build_surface(s) for s in surfaces]
        order_fn = make_order(case["order"], case["perm_seed"], spt)
        lay = case["layout"] or None
        tb = case["track_bytes"]
        v3ops = None
        if case["ops"]:
            def v3ops(t, sd):
                d = {}
                for pos, k, arg, which in case["ops"]:
                    if which == 2 or which == sd or t == 0:
                        d.setdefault(pos, []).append((k, arg))
                return d
        if case["kind"] == "mfm":
            data = flux.hxcmfm_from_sides(imgs, tracks, spt, layout=lay, order_fn=order_fn, track_bytes=tb or 6250)
            ext = "mfm"
        else:
            data = flux.hfe_from_sides(imgs, tracks, spt, enc, version=1 if case["kind"] == "hfe1" else 3,
                                       layout=lay, order_fn=order_fn, v3ops=v3ops, track_bytes=tb)
            ext = "hfe"
        cl = [case["kind"], enc + str(spt)]
        if case["order"] != "identity":
            cl.append("order-" + case["order"])
        if lay:
            cl.append("non-nominal-gaps")
        if case["ops"]:
            cl.append("v3-opcodes")
            if any(o[1] == "skipbits" for o in case["ops"]):
                cl.append("v3-skipbits")
        if len(imgs) == 2:
            cl.append("two-sided")
        if tracks >= 35:
            cl.append("full-size")
        v.classes.extend(cl)
        v.nontrivial = any(c.startswith(("order-", "non-nominal", "v3-", "two-sided")) for c in cl)
        with runtool.Sandbox("c05") as sb:
            fluxp = sb.file("img." + ext, data)
            dext = "ssd" if enc == "FM" else "sdd"
            dumps = []
            for i, im in enumerate(imgs):
                dumps += ["--file", sb.file("side%d.%s" % (i, dext), im)]
            A = [dfs, "--drive-first", "--file", fluxp]
            B = [dfs, "--drive-first"] + dumps
            cmds = []
            full = tracks in (35, 40, 80) and spt != 16
            for d, s in enumerate(surfaces):
                for vol in s["volumes"]:
                    vsel = "%d%s" % (d, vol["label"] or "")
                    cmds.append((["--drive", vsel, "info", "#.*"], None))
                    cmds.append((["free", vsel], None))
                    cmds.append((["space", vsel], None))
                    ents = disc.all_entries(vol)
                    for e in ents[:3]:
                        cmds.append((["type", "--binary", ":%s.%s.%s" % (vsel, chr(e["dir"]), e["name"].decode("latin-1"))],
                                     None))
                    if full:
                        cmds.append((["cat", vsel], None))
                cmds.append((["show-titles", str(d)], None))
                if full:
                    cmds.append((["sector-map", str(d)], None))
                # dump-sector at the same LBA in both geometries
                nsec = tracks * spt
                dspt = 10 if enc == "FM" else 18
                for lba in sorted({0, 1, nsec - 1, (case["pick"] * 7) % nsec, (case["pick"] * 13 + 5) % nsec}):
                    ta, sa = divmod(lba, spt)
                    tb_, sb_ = divmod(lba, dspt)
                    cmds.append((["dump-sector", str(d), str(ta), str(sa)], ["dump-sector", str(d), str(tb_), str(sb_)]))
            # extract-files of the first volume of every side: same set of files with the same contents
            for d, s in enumerate(surfaces):
                vsel = "%d%s" % (d, s["volumes"][0]["label"] or "")
                da, db = sb.mkdir("xa%d" % d), sb.mkdir("xb%d" % d)
                ra = runtool.run(A + ["--drive", vsel, "extract-files", da], sb.path, timeout=30)
                rb = runtool.run(B + ["--drive", vsel, "extract-files", db], sb.path, timeout=30)
                v.evaluations += 2
                if rb.status == 0:
                    def tree(p):
                        import os
                        out = {}
                        for f in sorted(os.listdir(p)):
                            with open(os.path.join(p, f), "rb") as fh:
                                out[f] = fh.read()
                        return out
                    if ra.status != 0 or tree(da) != tree(db):
                        v.fail("C05/differs-side1" if d else "C05/differs",
                               "extract-files of drive %s differs between the %s image and the sector dump" % (vsel, case["kind"]),
                               {"flux": ra.brief(), "dump": rb.brief()})
                        return v
            for ca, cb in cmds:
                ra = runtool.run(A + ca, sb.path, timeout=30)
                rb = runtool.run(B + (cb or ca), sb.path, timeout=30)
                v.evaluations += 2
                if ra.signal is not None or ra.timed_out:
                    v.fail("C05/crash", "%s on the flux image: signal/timeout" % ca[0], ra.brief())
                    return v
                if rb.status != 0:
                    # the reference run itself must work; otherwise the case says nothing
                    v.skipped = "reference-run-failed"
                    continue
                if ra.status != rb.status or ra.stdout != rb.stdout:
                    key = "C05/differs"
                    if len(imgs) == 2 and ca[-1].startswith("1") or (len(ca) > 1 and ca[1].startswith("1")):
                        key = "C05/differs-side1"
                    if any(o[1] == "skipbits" for o in case["ops"]):
                        key = "C05/skipbits"
                    v.fail(key, "%s gives a different result on the %s image than on the sector dump (exit %s vs %s)"
                           % (" ".join(ca), case["kind"], ra.status, rb.status),
                           {"flux": ra.brief(), "dump": rb.brief()})
                    return v
        return v


CHECK = C05()
