"""C06 -- track decoding never returns damaged or misaddressed sector data."""
import os
import shutil

from hypothesis import strategies as st

from vlib import disc, flux, fuzzrun, runtool
from vlib.harness import CheckBase, Verdict, VERIF

FAULTS = ["flip-id", "flip-data", "flip-idmark", "flip-datamark", "flip-gap", "slip", "zero-run", "truncate",
          "kill-id-sync", "kill-data-sync", "kill-pair", "kill-pair", "deleted-damaged", "deleted-damaged",
          "badcrc-damaged", "edge-all-tracks", "edge-all-tracks", "stray-cyl", "stray-cyl", "stray-head",
          "one-data-bit", "one-data-bit", "one-data-bit", "id-only", "id-only", "id-only", "id-only", "rand-run", "rand-run"]


@st.composite
def case_st(draw):
    kind = draw(st.sampled_from(["hfe1", "hfe3", "mfm"]))
    encoding = "MFM" if kind == "mfm" else draw(st.sampled_from(["FM", "MFM"]))
    spt = 10 if encoding == "FM" else draw(st.sampled_from([18, 16]))
    tracks = draw(st.integers(2, 4))
    nsides = draw(st.sampled_from([1, 1, 2]))
    faults = []
    # mostly one or two faults: several independent faults usually make the loader refuse the whole image (unequal
    # sector counts), and a refused image shows nothing about the decoder
    for _ in range(draw(st.sampled_from([1, 1, 1, 1, 2, 2, 3, 5]))):
        f = {"kind": draw(st.sampled_from(FAULTS)), "track": draw(st.integers(0, tracks - 1)),
             "side": draw(st.integers(0, nsides - 1)), "sector": draw(st.integers(0, spt - 1)),
             "off": draw(st.integers(0, 5000)), "n": draw(st.integers(1, 7)), "bits": draw(st.integers(1, 3))}
        faults.append(f)
    return {"kind": kind, "encoding": encoding, "spt": spt, "tracks": tracks, "nsides": nsides,
            "seed": draw(st.integers(0, 9999)), "order": draw(st.sampled_from(["identity", "rot", "rev"])),
            "faults": faults, "same_data": draw(st.integers(0, 5)) == 0}


class C06(CheckBase):
    pid = "C06"
    level = "exploration"
    variants = ("dbg", "asan", "fuzz")
    rule = ("(1) image level (Hypothesis): a valid 2-4 track HFE v1/v3 or HxC MFM image with known sector contents "
            "(every sector distinct) receives a drawn fault set of 1-5 faults (usually 1 or 2): bit flips inside a chosen sector's ID "
            "field / data field / address marks / gap, 1-7-cell slips (insert or delete), zeroed runs, wiped sync "
            "runs, truncation of a track, records with valid CRCs whose ID names another cylinder or the other head; "
            "an ID field with no record behind it and only 0-7 gap bytes before the next sector; an HFEv3 RAND (weak "
            "bytes) run from one record's data field to the next record's ID field; "
            "exactly one flipped data bit inside a CRC-covered field (such a sector must not be readable at all); "
            "then dump-sector is run for EVERY (side, track, sector): it must fail or "
            "print exactly the bytes recorded under that address.  (2) decoder level (libFuzzer target fuzz_track, "
            "bit-granular custom mutator) with a brute-force reference that finds every CRC-valid ID and data field "
            "at every bit offset: each returned sector must have a CRC-valid ID field with that address and size, "
            "CRC-valid data, and no other fully legal ID field with a different address between them.  Non-trivial: "
            "an image whose fault lands inside an ID or data field (computed from the encoder's field map); a fuzz "
            "corpus entry on which the reference finds >= 1 CRC-valid data field")
    assumptions = ("a forged CRC-valid field arising by chance (2^-16 per mark match) is not a practical false-alarm source",
                   "fields found by the reference without sync run / with clock errors only decide membership; only "
                   "fully legal ID fields can convict the decoder of skipping an ID")
    min_nontrivial = {"quick": 80, "thorough": 800}
    budget_s = {"quick": 40, "thorough": 900}
    fuzz_s = {"quick": 35, "thorough": 1200}

    def strategy(self, tier):
        return case_st()

    def examples(self, tier):
        return 600 if tier == "quick" else 15000

    def sample(self, case):
        return case

    # ---------------------------------------------------------------- image level
    def _build(self, case):
        spt, tracks, enc, nsides = case["spt"], case["tracks"], case["encoding"], case["nsides"]
        sides = []
        for sd in range(nsides):
            ents = [{"name": b"F", "dir": ord("$"), "locked": False, "load": 0, "exec": 0, "length": 256, "start": 2,
                     "body": {"kind": "rand", "seed": 1}}]
            s = {"variant": "acorn", "tracks": tracks, "spt": spt,
                 "fill": {"kind": "zero" if case["same_data"] else "rand", "seed": case["seed"] + sd},
                 "volumes": [{"label": None, "title": b"SIDE%d" % sd, "cycle": 0, "boot": 0, "total": tracks * spt,
                              "cats": [ents]}]}
            sides.append(bytearray(disc.build_surface(s)))
        # make every sector self-identifying unless same_data is requested
        if not case["same_data"]:
            for sd, img in enumerate(sides):
                for lba in range(2, tracks * spt):
                    img[lba * 256:lba * 256 + 8] = b"S%dL%04d:" % (sd, lba)
        enc_fn = flux.fm_track if enc == "FM" else flux.mfm_track
        tb = 3125 if enc == "FM" else 6250
        cells = []
        fmaps = []
        for t in range(tracks):
            per, pm = [], []
            for sd in range(nsides):
                secs = [bytes(sides[sd][(t * spt + s_) * 256:(t * spt + s_ + 1) * 256]) for s_ in range(spt)]
                order = list(range(spt))
                if case["order"] == "rot":
                    order = order[3:] + order[:3]
                elif case["order"] == "rev":
                    order = order[::-1]
                fm = []
                quirks = {}
                for f in case["faults"]:
                    if f["kind"] in ("deleted-damaged", "badcrc-damaged") and f["track"] == t and \
                            min(f["side"], nsides - 1) == sd:
                        # the record is written as a deleted-data (control) record / ordinary record whose data
                        # was damaged after the CRC was computed: it must never be returned as good
                        bad = bytearray(secs[f["sector"]])
                        bad[f["off"] % 256] ^= 1 << (f["bits"] % 8)
                        quirks[f["sector"]] = {"data": bytes(bad)}
                        if f["kind"] == "deleted-damaged":
                            quirks[f["sector"]]["mark"] = 0xF8
                    if f["kind"] == "id-only" and f["bits"] >= 2:
                        # on EVERY track the last-but-one record is an ID field with no record behind it and 0-1 gap
                        # bytes before the last sector (all tracks keep equal counts and no numbering gap appears, so
                        # the image as a whole stays acceptable): a read of that address must fail everywhere
                        quirks.setdefault(spt - 2, {}).update({"id_only": True, "id_gap": f["n"] % 2})
                    elif f["kind"] == "id-only" and f["track"] == t and min(f["side"], nsides - 1) == sd:
                        # the ID field of this sector is recorded but no record follows: after 0-7 gap bytes the next
                        # sector starts.  A read of this address must fail; the next sector's data is not this one's.
                        quirks.setdefault(f["sector"], {}).update({"id_only": True, "id_gap": f["n"] % 8})
                    if f["kind"] in ("stray-cyl", "stray-head") and f["track"] == t and min(f["side"], nsides - 1) == sd:
                        # a record with VALID CRCs whose ID names another cylinder / the other head (copy protection,
                        # or a drive that wrote while mis-stepped): a read of the address it names must still return
                        # what is recorded on THAT track, and a read of this slot must fail
                        sec = spt - 1 if f["n"] % 2 else f["sector"]
                        if f["kind"] == "stray-cyl":
                            quirks.setdefault(sec, {})["cyl"] = (t + 1 + f["off"] % max(1, tracks - 1)) % tracks
                        else:
                            quirks.setdefault(sec, {})["head"] = 1 - sd
                per.append(list(enc_fn(t, sd, secs, order=order, track_bytes=tb, fieldmap=fm, quirks=quirks)))
                pm.append({f["sector"]: f for f in fm})
            cells.append(per)
            fmaps.append(pm)
        return sides, cells, fmaps

    def _apply(self, case, cells, fmaps):
        hit_field = False
        faults = []
        for f in case["faults"]:
            if f["kind"] == "edge-all-tracks":
                # the same edge sector (first or last record) is damaged on EVERY track of every side, so that all
                # tracks keep equal sector counts and no record-number gap appears in the middle of a track
                edge = 0 if f["sector"] % 2 == 0 else case["spt"] - 1
                for t in range(case["tracks"]):
                    for sd in range(case["nsides"]):
                        faults.append(dict(f, kind="flip-data", track=t, side=sd, sector=edge))
            else:
                faults.append(f)
        # exactly one DATA cell inside a CRC-covered span (ID field or data field, the address mark included): applied
        # first, while the field map is still exact.  A single wrong bit always fails CRC-16/CCITT, so such a sector
        # must never be readable (recorded in must_fail unless another fault also aims at the same sector).
        self.must_fail = set()
        self.rand_runs = {}
        aimed = {}
        for f in faults:
            key = (f["track"], min(f["side"], case["nsides"] - 1), f["sector"])
            aimed[key] = aimed.get(key, 0) + 1
        faults.sort(key=lambda f: f["kind"] != "one-data-bit")
        for f in faults:
            t, sd = f["track"], min(f["side"], case["nsides"] - 1)
            c = cells[t][sd]
            fm = fmaps[t][sd].get(f["sector"])
            if fm is None:
                continue
            ids, ide = fm["id"]
            ds, de = fm["data"]
            k = f["kind"]
            if k == "one-data-bit":
                mfm = case["encoding"] == "MFM"
                skip = 48 if mfm else 0                    # three A1 sync bytes precede the mark in MFM
                which = f["bits"]                          # 1: ID field, 2: data field, 3: low bits of the ID mark
                if which == 3:
                    p = ids + skip + (15 if f["off"] % 2 else 13)        # data bit 0 / bit 1 of the mark byte
                elif which == 1:
                    nbytes = (ide - ids - skip) // 16
                    p = ids + skip + 2 * (f["off"] % (nbytes * 8)) + 1
                else:
                    nbytes = (de - ds - skip) // 16
                    if nbytes <= 0:
                        continue              # the sector has no data field at all (id-only quirk): nothing to flip
                    p = ds + skip + 2 * (f["off"] % (nbytes * 8)) + 1
                if 0 <= p < len(c):
                    c[p] ^= 1
                    hit_field = True
                    if aimed[(t, sd, f["sector"])] == 1:
                        self.must_fail.add((sd, t, f["sector"]))
            elif k == "flip-id":
                for i in range(f["bits"]):
                    p = ids + 16 + (f["off"] * (i + 1)) % max(1, ide - ids - 16)
                    if 0 <= p < len(c):
                        c[p] ^= 1
                hit_field = True
            elif k == "flip-data":
                for i in range(f["bits"]):
                    p = ds + (f["off"] * (i + 3)) % max(1, de - ds)
                    if 0 <= p < len(c):
                        c[p] ^= 1
                hit_field = True
            elif k == "flip-idmark":
                p = ids + f["off"] % 16
                if p < len(c):
                    c[p] ^= 1
                hit_field = True
            elif k == "flip-datamark":
                span = 16 if case["encoding"] == "FM" else 64
                p = ds + f["off"] % span
                if p < len(c):
                    c[p] ^= 1
                hit_field = True
            elif k == "flip-gap":
                p = de + f["off"] % 100
                if p < len(c):
                    if 0 <= p < len(c):
                        c[p] ^= 1
            elif k == "slip":
                p = ids + f["off"] % max(1, de - ids)
                if f["bits"] % 2:
                    c[p:p] = [0] * f["n"]
                else:
                    del c[p:p + f["n"]]
                hit_field = True
            elif k == "zero-run":
                p = ids + f["off"] % max(1, de - ids)
                for q in range(p, min(len(c), p + 20 * f["n"])):
                    c[q] = 0
                hit_field = True
            elif k == "truncate":
                p = ids + f["off"] % max(1, de - ids)
                del c[p:]
                hit_field = True
            elif k == "kill-id-sync":
                # wipe the sync run and mark in front of the ID field so that it is not seen at all
                for q in range(max(0, ids - 16 * 6), min(len(c), ids + 64)):
                    c[q] = 1 if (q % 2 == 0) else 0
                hit_field = True
            elif k in ("deleted-damaged", "badcrc-damaged", "stray-cyl", "stray-head"):
                hit_field = True          # applied when the track was encoded
            elif k == "rand-run":
                # (HFE v3 only) on EVERY track the bytes from the data field of the last-but-one record up to and
                # including the ID field of the last record -- plus part of the gaps around them -- are RAND (weak)
                # bytes: both sectors are unreadable, neither may be returned, and above all not one for the other
                if case["kind"] == "hfe3":
                    per = 4 if case["encoding"] == "FM" else 8        # cells per HFE byte
                    for t2 in range(case["tracks"]):
                        for sd2 in range(case["nsides"]):
                            fa = fmaps[t2][sd2].get(case["spt"] - 2)
                            fb = fmaps[t2][sd2].get(case["spt"] - 1)
                            if not fa or not fb or fb["id"][0] < fa["data"][0]:
                                continue
                            a0 = fa["data"][0] // per - (f["n"] % 3) * 6
                            a1 = fb["id"][1] // per + 2 + (f["off"] % 3) * 6
                            self.rand_runs[(t2, sd2)] = {max(0, a0): [("rand", a1 - max(0, a0))]}
                            self.must_fail.add((sd2, t2, case["spt"] - 2))
                            self.must_fail.add((sd2, t2, case["spt"] - 1))
                    hit_field = True
            elif k == "id-only":
                hit_field = True
                if f["bits"] >= 2:
                    for t2 in range(case["tracks"]):
                        for sd2 in range(case["nsides"]):
                            self.must_fail.add((sd2, t2, case["spt"] - 2))
                else:
                    self.must_fail.add((sd, t, f["sector"]))
            elif k == "kill-pair":
                # the data field of this sector AND the ID field of the physically next sector vanish
                for q in range(max(0, ds - 16 * 6), min(len(c), ds + 64)):
                    c[q] = 1 if (q % 2 == 0) else 0
                nxt = sorted((m["id"][0], sec) for sec, m in fmaps[t][sd].items() if m["id"][0] > ds)
                if nxt:
                    nid = nxt[0][0]
                    for q in range(max(0, nid - 16 * 6), min(len(c), nid + 64)):
                        c[q] = 1 if (q % 2 == 0) else 0
                hit_field = True
            elif k == "kill-data-sync":
                for q in range(max(0, ds - 16 * 6), min(len(c), ds + 64)):
                    c[q] = 1 if (q % 2 == 0) else 0
                hit_field = True
        return hit_field

    def judge(self, ctx, case):
        v = Verdict()
        if case.get("kind") == "fuzz":
            return self._judge_fuzz(ctx, case, v)
        dfs = ctx.tool("asan" if case["seed"] % 5 == 0 else "dbg", "dfs")
        sides, cells, fmaps = self._build(case)
        hit = self._apply(case, cells, fmaps)
        if hit:
            v.nontrivial = True
        for f in case["faults"]:
            v.classes.append("fault-" + f["kind"])
            if f["kind"] == "id-only" and f["bits"] >= 2:
                v.classes.append("id-only-every-track-gap<=1-%s-%dfaults" % (case["encoding"], min(len(case["faults"]), 3)))
        v.classes.append(case["kind"] + "-" + case["encoding"])
        spt, tracks, nsides = case["spt"], case["tracks"], case["nsides"]
        if case["kind"] == "mfm":
            data = flux.build_hxcmfm(cells, nsides)
            ext = "mfm"
        else:
            v3ops = None
            if case["kind"] == "hfe3" and self.rand_runs:
                rr = dict(self.rand_runs)

                def v3ops(t, sd):
                    return rr.get((t, sd))
            data = flux.build_hfe(cells, nsides, case["encoding"], version=1 if case["kind"] == "hfe1" else 3,
                                  v3ops=v3ops)
            ext = "hfe"
        with runtool.Sandbox("c06") as sb:
            img = sb.file("img." + ext, data)
            for sd in range(nsides):
                for t in range(tracks):
                    for s_ in range(spt):
                        r = runtool.run([dfs, "--drive-first", "--file", img, "dump-sector", str(sd), str(t), str(s_)],
                                        sb.path, timeout=20)
                        v.evaluations += 1
                        if r.signal is not None or r.timed_out:
                            v.fail("C06/crash", "dump-sector %d %d %d: signal/timeout" % (sd, t, s_), r.brief())
                            return v
                        if r.status != 0:
                            if r.stdout:
                                v.fail("C06/failed-with-output", "dump-sector failed but printed data", r.brief())
                            continue
                        if (sd, t, s_) in self.must_fail:
                            v.fail("C06/damaged-sector-read-as-good", "dump-sector %d %d %d succeeded although one data "
                                   "bit of a CRC-covered field was flipped / no record was recorded for that ID at all (%s %s)"
                                   % (sd, t, s_, case["kind"], case["encoding"]), r.brief())
                            return v
                        lba = t * spt + s_
                        want = disc.render_dump(bytes(sides[sd][lba * 256:lba * 256 + 256]))
                        if r.stdout != want:
                            # which sector's data is it?
                            who = None
                            for sd2 in range(nsides):
                                for l2 in range(tracks * spt):
                                    if disc.render_dump(bytes(sides[sd2][l2 * 256:l2 * 256 + 256])) == r.stdout:
                                        who = (sd2, l2 // spt, l2 % spt)
                            key = "C06/misaddressed" if who else "C06/damaged-data-returned"
                            if case["kind"] == "mfm" and who:
                                key = "C06/hxcmfm-ordinal-shift"
                            v.fail(key, "dump-sector %d %d %d on the damaged %s image printed %s (faults %s)"
                                   % (sd, t, s_, case["kind"], "the data of sector %s" % (who,) if who else
                                      "bytes that were never recorded there", [f["kind"] for f in case["faults"]]),
                                   {"got": r.stdout[:120], "want": want[:120]})
                            return v
        return v

    # ---------------------------------------------------------------- decoder level
    def _target(self, ctx):
        return fuzzrun.build_target(ctx.builds["fuzz"], "fuzz_track")

    def _judge_fuzz(self, ctx, case, v):
        t = self._target(ctx)
        with runtool.Sandbox("c06f") as sb:
            p = sb.file("input.bin", case["input"])
            rc, out = fuzzrun.replay(t, p)
            v.evaluations += 1
            if rc != 0:
                key = "C06/fuzz-oracle" if b"ORACLE-VIOLATION" in out else "C06/fuzz-crash"
                i = out.find(b"ORACLE-VIOLATION")
                v.fail(key, "fuzz_track input fails: %s" % out[i:i + 200].decode("latin-1") if i >= 0 else "crash",
                       {"output": out[-2000:]})
        return v

    def extra_phase(self, ctx, tier, seed):
        t = self._target(ctx)
        res = fuzzrun.campaign(t, os.path.join(VERIF, "corpus", "fuzz_track"), self.fuzz_s[tier], seed, max_len=13000)
        try:
            nt = fuzzrun.count_nontrivial(t, res["corpus"])
            failing = []
            for path, txt in res["crashes"][:4]:
                with open(path, "rb") as fh:
                    data = fh.read()
                failing.append({"case": {"kind": "fuzz", "target": "fuzz_track", "input": data},
                                "failures": [{"key": "C06/fuzz-oracle", "msg": txt[-600:]}], "shrunk": False})
            samples = []
            for f in sorted(os.listdir(res["corpus"]))[:2]:
                with open(os.path.join(res["corpus"], f), "rb") as fh:
                    d = fh.read()
                samples.append({"fuzz_track_corpus_entry": {"encoding": "FM" if d[:1] and d[0] % 2 == 0 else "MFM",
                                                            "cells_bytes": len(d) - 1, "head": d[:32].hex()}})
            return {"evaluations": res["execs"], "nontrivial": nt, "failing": failing, "samples": samples,
                    "coverage": {"fuzz_track": {"executions": res["execs"], "final_corpus_entries": res["corpus_files"],
                                                "nontrivial_corpus_entries": nt, "crash_artifacts": len(res["crashes"]),
                                                "ignored_artifacts(timeout/oom/slow)": len(res["other_artifacts"]),
                                                "seconds": self.fuzz_s[tier], "processes": 16}}}
        finally:
            shutil.rmtree(res["work"], ignore_errors=True)


CHECK = C06()
