"""C07 -- dfs fails cleanly on arbitrary image files and command lines."""
import gzip
import os
import shutil
import struct

from hypothesis import strategies as st

from vlib import containers, disc, flux, fuzzrun, gen, runtool
from vlib.harness import CheckBase, Verdict, VERIF

EXTS = ["ssd", "sdd", "dsd", "ddd", "mmb", "hfe", "mfm"]
COMMANDS = [["cat"], ["info", "#.*"], ["type", "--binary", "NAME"], ["list", "NAME"], ["dump", "NAME"],
            ["dump-sector", "0", "1", "2"], ["free"], ["space"], ["sector-map"], ["show-titles"], ["help"],
            ["extract-files", "OUT"], ["extract-unused", "OUT"], ["cat", "2"], ["space", "0", "0B"],
            ["show-titles", "0", "1"], ["free", "0A"], ["info", ":0B.#.*"], ["sector-map", "1"],
            # (appended later; indices above are used by saved replays) sector reads of drives that may be empty,
            # unformatted (MMB) or the second side, at the very first sector
            ["dump-sector", "0", "0", "0"], ["dump-sector", "1", "0", "0"], ["dump-sector", "2", "0", "0"],
            ["dump-sector", "3", "0", "1"], ["dump-sector", "4", "0", "0"], ["dump-sector", "1020", "0", "0"],
            ["type", "--binary", ":2.$.F"], ["cat", "1"], ["extract-unused", "OUT", "2"], ["free", "2"]]
CHARS = gen.PLAIN_CHARS
HOSTILE_ARGS = ["", "-1", "99999999999999999999", "0x10", "4294967296", "4294967295", "2147483648", "1e3", "\xff\xfe",
                "A" * 4096, "0A", "0Z", ":0.$", ":.", "#", "*", "--", "-", "--binary", "--file", "$.", ":99999999999.$.X",
                # malformed drive / directory / name syntax
                ":0x.$.X", ":.$.X", ":0", ":0A", ":0.", "0x", ":0..", "$.#.*", ".", "..", "#.", ".X", "::", ":0.$.", ":A.$.X",
                ":0A.$.X", ":-1.$.X", ":0 .$.X", "$..X", "$.X.Y", ":0.$$.X", "[", "(", "\\", "a{2}", "X+", "^", "$"]
# placeholders for --file arguments that are not ordinary image files
ODD_FILES = ["IMGDIR", "MISSING", "NOEXT", "BADEXT", "BAREGZ", "UPPEREXT", "EMPTYSSD", "DOTONLY", "GZDIR"]


def _small_surface(draw, variant, tracks, spt):
    if variant == "opus":
        return draw(gen.surface(variants=("opus",), chars=CHARS, big_ok=False, opus_geoms=[(tracks, 18)]))
    nsec = tracks * spt
    # the catalogue's total-sectors field: usually the whole surface, sometimes a smaller file system
    total = draw(st.sampled_from([min(nsec, 1023)] * 3 + [t for t in (300, 350, 400, 630, 721, 800) if t <= min(nsec, 1023)]))
    lo = 4 if variant == "watford" else 2
    ents = draw(gen.entries_for(lo, total, 8, CHARS, None, True, False))
    if variant == "watford":
        k = draw(st.integers(0, len(ents)))
        cats = [ents[k:], ents[:k]]
    else:
        cats = [ents]
    return {"variant": variant, "tracks": tracks, "spt": spt, "fill": {"kind": "rand", "seed": draw(st.integers(0, 99))},
            "volumes": [{"label": None, "title": draw(gen.title_st()), "cycle": draw(st.integers(0, 255)),
                         "boot": draw(st.integers(0, 3)), "total": total, "cats": cats}]}


@st.composite
def image_case(draw):
    ext = draw(st.sampled_from(EXTS + ["hfe"]))
    c = {"kind": "image", "ext": ext, "seed": draw(st.integers(0, 10 ** 6))}
    variant = draw(st.sampled_from(["acorn", "acorn", "watford", "opus"]))
    if ext in ("ssd", "dsd", "mmb", "hfe", "mfm") and variant == "opus":
        variant = "watford"
    c["variant"] = variant
    if ext in ("hfe", "mfm"):
        c["tracks"] = 40 if variant == "opus" else draw(st.integers(1, 4))
        c["enc"] = "MFM" if (ext == "mfm" or variant == "opus") else draw(st.sampled_from(["FM", "MFM"]))
        c["spt"] = 10 if c["enc"] == "FM" else 18
        c["version"] = draw(st.sampled_from([1, 3, 3]))
        c["nsides"] = draw(st.sampled_from([1, 2]))
        ops = []
        if c["version"] == 3 and ext == "hfe":
            for _ in range(draw(st.integers(1, 4))):
                k = draw(st.sampled_from(["nop", "setindex", "setbitrate", "skipbits", "skipbits"]))
                arg = draw(st.integers(0, 255))
                if k == "skipbits":
                    arg = draw(st.integers(0, 7)) & (6 if c["enc"] == "FM" else 7)
                    arg |= draw(st.sampled_from([0, 0x7F, 0x7F, draw(st.integers(0, 127))])) << 3
                ops.append([draw(st.sampled_from([0, 1, 5, 100, 255, 256, 300, 511, 512, 1000])), k, arg])
        c["v3ops"] = ops
        # sector-level oddities recorded with VALID CRCs (what a byte-level mutation cannot produce)
        fq = []
        for _ in range(draw(st.sampled_from([0, 0, 1, 2]))):
            fq.append([draw(st.integers(0, c["tracks"] - 1)), draw(st.integers(0, c["spt"] - 1)),
                       draw(st.sampled_from(["size0", "size2", "size3", "dup", "wrongcyl", "wronghead", "deleted",
                                             "badcrc", "deleted-badcrc", "orphan-near", "orphan-far", "orphan-far",
                                             "idonly"]))])
        c["flux_quirks"] = fq
    else:
        c["tracks"] = draw(st.sampled_from([40, 80, 35]))
        c["spt"] = 18 if ext in ("sdd", "ddd") else 10
        if variant == "opus":
            c["spt"] = 18
    c["surface"] = _small_surface(draw, variant, c["tracks"], c["spt"])
    # an interleaved image whose second side carries no catalogue / an HFE file not padded to 512 after its last track
    c["blank_side1"] = ext in ("dsd", "ddd") and draw(st.booleans())
    c["hfe_unpadded"] = ext == "hfe" and draw(st.integers(0, 2)) == 0
    # mutations
    muts = []
    for _ in range(draw(st.integers(0, 4))):
        kind = draw(st.sampled_from(["trunc-struct", "trunc-any", "field", "field", "field", "flip", "splice", "zero-sector",
                                     "ff-sector", "append", "total", "total", "opus16"]))
        muts.append({"kind": kind, "a": draw(st.integers(0, 10 ** 6)), "b": draw(st.integers(0, 10 ** 6)),
                     "val": draw(st.sampled_from([0, 1, 2, 3, 0x7F, 0x80, 0xF8, 0xFE, 0xFF, 8, 12, 16, 18, 0x1F, 0x20]))})
    c["muts"] = muts
    c["gz"] = draw(st.sampled_from([0, 0, 0, 1, 2]))     # 0 plain, 1 gzip, 2 gzip then corrupt/truncate
    c["gz_members"] = draw(st.sampled_from([1, 1, 2, 3]))
    c["cmd"] = draw(st.integers(0, len(COMMANDS) - 1))
    c["verbose"] = draw(st.integers(0, 3)) == 0
    c["variant_build"] = draw(st.sampled_from(["asan", "asan", "dbg", "ndebug"]))
    return c


NUMS = ["-1", "0", "1", "-2", "2", "9", "10", "17", "18", "39", "40", "79", "80", "-0", "+1", " 1", "1 ", "0x1", "1e1", "",
        "4294967295", "4294967296", "-4294967296", "2147483647", "-2147483648", "9223372036854775807",
        "-9223372036854775808", "99999999999999999999", "0A", "2B"]


@st.composite
def cli_case(draw):
    words = []
    n = draw(st.integers(0, 6))
    vocab = ["--file", "--dir", "--drive", "--drive-first", "--drive-physical", "--show-config", "--help", "--ui",
             "--verbose", "--bogus", "-x", "IMG", "IMG2", "cat", "info", "type", "list", "dump", "dump-sector", "free",
             "space", "sector-map", "show-titles", "help", "extract-files", "extract-unused", "OUT", "acorn", "watford",
             "opus", "0", "1", "2", "3", "$", "#.*"] + HOSTILE_ARGS + ODD_FILES
    for _ in range(n):
        words.append(draw(st.sampled_from(vocab)))
    num = st.sampled_from(NUMS)
    tail = draw(st.sampled_from([[], ["cat"], ["info", "*"], ["dump-sector", "0", "0", "0"], ["help", "cat"],
                                 ["dump-sector", draw(num), draw(num), draw(num)],
                                 ["dump-sector", "0", draw(num), draw(num)],
                                 ["dump-sector", "0", draw(num), draw(num)],
                                 ["dump-sector", "0", "0", draw(num)], ["dump-sector", "0", draw(num), "0"],
                                 ["cat", draw(num)], ["free", draw(num)], ["space", draw(num), draw(num)],
                                 ["show-titles", draw(num), draw(num)], ["sector-map", draw(num)],
                                 ["--drive", draw(num), "cat"] if False else ["cat", draw(num)],
                                 ["type", draw(st.sampled_from(HOSTILE_ARGS))],
                                 ["dump-sector", draw(st.sampled_from(HOSTILE_ARGS)), "0", "0"],
                                 ["dump-sector", "0", draw(st.sampled_from(HOSTILE_ARGS)), draw(st.sampled_from(HOSTILE_ARGS))],
                                 ["cat", draw(st.sampled_from(HOSTILE_ARGS))], ["free", draw(st.sampled_from(HOSTILE_ARGS))],
                                 ["space", draw(st.sampled_from(HOSTILE_ARGS))], ["show-titles", draw(st.sampled_from(HOSTILE_ARGS))],
                                 ["sector-map", draw(st.sampled_from(HOSTILE_ARGS))], ["info", draw(st.sampled_from(HOSTILE_ARGS))],
                                 ["help", draw(st.sampled_from(HOSTILE_ARGS))]]))
    pre = draw(st.sampled_from([["--file", "IMG"], ["--file", "IMG"], [], ["--file", "IMG", "--file", "IMG2"],
                                ["--drive", draw(num), "--file", "IMG"], ["--file", "IMG", "--drive", draw(num)],
                                ["--drive", draw(st.sampled_from(HOSTILE_ARGS)), "--file", "IMG"],
                                ["--dir", draw(st.sampled_from(HOSTILE_ARGS)), "--file", "IMG"],
                                ["--ui", draw(st.sampled_from(HOSTILE_ARGS + ["acorn"])), "--file", "IMG"],
                                ["--file", draw(st.sampled_from(ODD_FILES))],
                                ["--file", "IMG", "--file", draw(st.sampled_from(ODD_FILES))],
                                ["--file", draw(st.sampled_from(ODD_FILES)), "--file", "IMG"]]))
    return {"kind": "cli", "argv": pre + words + tail, "seed": draw(st.integers(0, 999)),
            "variant_build": draw(st.sampled_from(["asan", "dbg", "ndebug"]))}


def cli_materialise(case, sb, out, v=None):
    """Turn a cli_case into real arguments (the placeholders become files in the sandbox); returns (args, image size)."""
    s = {"variant": "acorn", "tracks": 40, "spt": 10, "fill": {"kind": "rand", "seed": case["seed"]},
         "volumes": [{"label": None, "title": b"CLI", "cycle": 1, "boot": 0, "total": 400,
                      "cats": [[{"name": b"X", "dir": ord("$"), "locked": False, "load": 0, "exec": 0,
                                 "length": 600, "start": 2, "body": {"kind": "text", "seed": 1}}]]}]}
    d = disc.build_surface(s)
    img = sb.file("a.ssd", d)
    img2 = sb.file("b.ssd", d)
    odd = {"IMG": img, "IMG2": img2, "OUT": out}
    if any(a in ODD_FILES for a in case["argv"]):
        if v is not None:
            v.classes.append("cli-odd-file")
        odd.update({"IMGDIR": sb.mkdir("dir.ssd"), "MISSING": os.path.join(sb.path, "missing.ssd"),
                    "NOEXT": sb.file("noext", d), "BADEXT": sb.file("a.xyz", d),
                    "BAREGZ": sb.file("gz/bare.gz", containers.gz(d, level=6)),
                    "UPPEREXT": sb.file("u/A.SSD", d), "EMPTYSSD": sb.file("e/empty.ssd", b""),
                    "DOTONLY": sb.file("d/.ssd", d), "GZDIR": sb.mkdir("dir.ssd.gz")})
    args = [odd.get(a, a) for a in case["argv"]]
    args = [a.encode("latin-1", "replace").decode("latin-1") for a in args]
    args = [a for a in args if "\0" not in a]
    return args, len(d)


# ---------------------------------------------------------------- image construction + structure-aware mutation

QUIRK = {"size0": {"size_code": 0}, "size2": {"size_code": 2}, "size3": {"size_code": 3}, "dup": {"dup": True},
         "wrongcyl": {"cyl": 77}, "wronghead": {"head": 1}, "deleted": {"mark": 0xF8}, "badcrc": {"crc_xor": 0x0100},
         "deleted-badcrc": {"mark": 0xF8, "crc_xor": 1},
         # an ID field without a record: 8 / 60 gap bytes in front of the (intact) sector, or instead of its record
         "orphan-near": {"orphan": {"gap": 8}}, "orphan-far": {"orphan": {"gap": 60}},
         "idonly": {"id_only": True, "id_gap": 3}}


def flux_quirks_fn(c):
    fq = c.get("flux_quirks") or []
    if not fq:
        return None

    def fn(t, sd):
        return {sec: QUIRK[kind] for tt, sec, kind in fq if tt == t}
    return fn


def flux_track_bytes(c):
    """room for up to two 1024-byte sectors"""
    if not c.get("flux_quirks"):
        return None
    nominal = 3125 if c.get("enc") == "FM" else 6250
    return nominal + 2200


def compress_image(c, data):
    """gzip an image the way the case says (level 1, 1-3 members)."""
    return containers.gz(data, level=1, members=c.get("gz_members", 1))


def build_image(c):
    s = c["surface"]
    ext = c["ext"]
    img = disc.build_surface(s)
    bounds = [0, 256, 512, 768, 1024, 16 * 256, 17 * 256, 18 * 256]
    if ext in ("ssd", "sdd"):
        data = img
    elif ext in ("dsd", "ddd"):
        other = img
        if c.get("blank_side1"):
            other = bytearray(disc.expand({"kind": "rand", "seed": 5}, len(img)))
            other[256 + 5] = 0xFF
            other = bytes(other)
        data = containers.interleaved(img, other, c["spt"])
        bounds += [c["spt"] * 256, c["spt"] * 256 + 512, 2 * c["spt"] * 256]
    elif ext == "mmb":
        import tempfile
        p = tempfile.mktemp(dir=runtool.WORK_ROOT)
        os.makedirs(runtool.WORK_ROOT, exist_ok=True)
        s2 = dict(s, tracks=80, spt=10)
        s2["volumes"] = [dict(s["volumes"][0], total=800)]
        try:
            im80 = disc.build_surface(s2)
        except Exception:
            im80 = img
        containers.write_mmb(p, {0: (0x0F, im80), 2: (0x00, im80[:8192])}, trailing=False)
        with open(p, "rb") as fh:
            data = fh.read(8192 + 40 * 1024)
        os.unlink(p)
        bounds += [16, 32, 8192, 8192 + 256, 8192 + 512]
    elif ext == "hfe":
        sides = [img] * c["nsides"]
        quirks_fn = flux_quirks_fn(c)
        v3ops = None
        if c.get("v3ops"):
            def v3ops(t, sd, ops=c["v3ops"]):
                d = {}
                for pos, k, arg in ops:
                    d.setdefault(pos, []).append((k, arg))
                return d
        data = flux.hfe_from_sides(sides, c["tracks"], c["spt"], c["enc"], version=c["version"], v3ops=v3ops,
                                   quirks_fn=quirks_fn, track_bytes=flux_track_bytes(c),
                                   pad_last=not c.get("hfe_unpadded"))
        bounds += [8, 9, 10, 11, 12, 18, 20, 512, 512 + 4, 512 + 4 * c["tracks"], 1024, 1024 + 256, 1024 + 512]
    else:
        sides = [img] * c["nsides"]
        data = flux.hxcmfm_from_sides(sides, c["tracks"], c["spt"], quirks_fn=flux_quirks_fn(c),
                                      track_bytes=flux_track_bytes(c) or 6250)
        bounds += [7, 9, 10, 15, 19, 19 + 11, 19 + 11 * c["tracks"] * c["nsides"]]
    return bytearray(data), sorted(set(b for b in bounds if b <= len(data)))


FIELDS = {
    # (offset, size) of declared counts / offsets / lengths per container
    "hfe": [(9, 1), (10, 1), (11, 1), (18, 2), (512, 2), (514, 2), (516, 2), (518, 2), (0, 8), (22, 1), (23, 1)],
    "mfm": [(7, 2), (9, 1), (14, 1), (15, 4), (19, 2), (21, 1), (22, 4), (26, 4), (30, 2), (33, 4), (37, 4)],
    "mmb": [(16 + 15, 1), (32 + 15, 1), (48 + 15, 1), (0, 8)],
    "sd": [(256 + 5, 1), (256 + 6, 1), (256 + 7, 1), (256 + 8 + 6, 1), (256 + 8 + 7, 1), (256 + 8 + 4, 2),
           (16 * 256 + 1, 2), (16 * 256 + 3, 1), (16 * 256 + 8, 1), (16 * 256 + 10, 1), (512, 8), (768 + 5, 1),
           (768 + 6, 1), (8, 8)],
}


def mutate(c, data, bounds):
    ext = c["ext"]
    fields = FIELDS.get(ext, FIELDS["sd"])
    base_off = 8192 if ext == "mmb" else 0
    if ext == "mmb":
        fields = fields + [(8192 + o, n) for o, n in FIELDS["sd"]]
    for m in c["muts"]:
        if not data:
            break
        k = m["kind"]
        if k == "trunc-struct":
            cut = bounds[m["a"] % len(bounds)] + (m["b"] % 3) - 1
            del data[max(0, cut):]
        elif k == "trunc-any":
            del data[m["a"] % (len(data) + 1):]
        elif k == "field":
            off, n = fields[m["a"] % len(fields)]
            vals = [0, 1, (1 << (8 * n)) - 2, (1 << (8 * n)) - 1, m["val"], m["b"] & ((1 << (8 * n)) - 1)]
            val = vals[m["b"] % len(vals)] & ((1 << (8 * n)) - 1)
            if off + n <= len(data):
                data[off:off + n] = val.to_bytes(n, "little")
        elif k == "total":
            # rewrite the catalogue's total-sectors field (11 bits incl. the "large disc" bit 2 of byte 0x106)
            tot = [0, 1, 2, 3, 4, 5, 400, 720, 800, 1023, 1024, 1030, 1100, 1440, 2047, m["a"] % 2048][m["b"] % 16]
            o = base_off + 256
            if o + 8 <= len(data):
                data[o + 6] = (data[o + 6] & 0xF0) | ((tot >> 8) & 7) | (m["val"] & 8)
                data[o + 7] = tot & 0xFF
        elif k == "opus16":
            # a plausible Opus volume table in sector 16 with drawn total / track numbers
            o = base_off + 16 * 256
            if o + 32 <= len(data):
                tot = [630, 720, 1440, 0, 5, 65535, m["a"] % 65536][m["b"] % 7]
                data[o:o + 8] = bytes([0x20, (tot >> 8) & 0xFF, tot & 0xFF, [18, 18, 10, m["val"]][m["a"] % 4], 80, 0, 0, 0])
                for i in range(8):
                    data[o + 8 + 2 * i] = [0, 1, 2, 39, 40, 79, 80, 255, m["val"]][(m["a"] >> (3 * i)) % 9]
        elif k == "flip":
            p = m["a"] % len(data)
            data[p] ^= 1 << (m["b"] % 8)
        elif k == "splice":
            p = m["a"] % len(data)
            q = m["b"] % len(data)
            data[p:p + 64] = data[q:q + 64]
        elif k == "zero-sector":
            p = (m["a"] % max(1, min(len(data) // 256, 20))) * 256
            data[p:p + 256] = bytes(min(256, len(data) - p))
        elif k == "ff-sector":
            p = (m["a"] % max(1, min(len(data) // 256, 20))) * 256
            data[p:p + 256] = b"\xFF" * min(256, len(data) - p)
        elif k == "append":
            data += bytes([m["val"]]) * (m["a"] % 600)
    return data


class C07(CheckBase):
    pid = "C07"
    level = "exploration"
    variants = ("asan", "dbg", "ndebug", "fuzz")
    rule = ("(1) Hypothesis CLI cases: generated valid images of every container (ssd/sdd/dsd/ddd/mmb/hfe v1+v3/mfm; "
            "Acorn/Watford/Opus) with 0-4 structure-aware mutations (truncation at every structure boundary +-1, "
            "declared counts/offsets/lengths overwritten with 0/1/max-1/max/drawn, bit flips, splices, zeroed or FF "
            "sectors, appended bytes), optionally gzip-compressed (and then corrupted), x 29 command lines x "
            "--verbose, on the ASan+UBSan, default and NDEBUG builds; plus command lines drawn from the real option "
            "and command names with hostile values.  Oracle: exit 0/1/2, no signal, no sanitizer report, no time-out "
            "(10 s, confirmed 3x), peak RSS <= 256 MiB + 64 x file size, exit != 0 => stderr non-empty.  (2) libFuzzer "
            "target fuzz_dfs: main() in-process with the same oracle, -timeout=5, -malloc_limit_mb=256.  Non-trivial: "
            "a CLI case that got past container parsing (exit 0, or a diagnostic other than 'cannot use image "
            "file'/'not recognized'); a fuzz corpus entry on which main returned 0")
    assumptions = ("death by SIGPIPE is not exercised here", "time-outs count only after three repeats on an idle core")
    min_nontrivial = {"quick": 150, "thorough": 1500}
    budget_s = {"quick": 50, "thorough": 900}
    fuzz_s = {"quick": 40, "thorough": 1500}

    def strategy(self, tier):
        return st.one_of(image_case(), image_case(), image_case(), cli_case())

    def examples(self, tier):
        return 3000 if tier == "quick" else 80000

    def sample(self, case):
        c = dict(case)
        c.pop("surface", None)
        if "argv" in c:
            c["argv"] = [a if len(a) < 40 else a[:40] + "..." for a in c["argv"]]
        return c

    # ------------------------------------------------------------------
    def judge(self, ctx, case):
        v = Verdict()
        if case["kind"] == "fuzz":
            return self._judge_fuzz(ctx, case, v)
        dfs = ctx.tool(case["variant_build"], "dfs")
        with runtool.Sandbox("c07") as sb:
            out = sb.mkdir("out")
            if case["kind"] == "image":
                try:
                    data, bounds = build_image(case)
                except Exception as ex:       # generator problem, not a verdict
                    v.skipped = "generator-error:%s" % type(ex).__name__
                    return v
                data = bytes(mutate(case, data, bounds))
                name = "img." + case["ext"]
                if case["gz"]:
                    z = compress_image(case, data)
                    if case["gz"] == 2 and len(z) > 12:
                        z = bytearray(z)
                        if case["seed"] % 2:
                            del z[10 + case["seed"] % (len(z) - 10):]
                        else:
                            z[10 + case["seed"] % (len(z) - 10)] ^= 1 << (case["seed"] % 8)
                        z = bytes(z)
                    data_w = z
                    name += ".gz"
                else:
                    data_w = data
                img = sb.file(name, data_w)
                fsize = len(data)
                cmd = list(COMMANDS[case["cmd"]])
                # a plausible file name from the first catalogue entry
                nm = "F"
                try:
                    e = disc.all_entries(case["surface"]["volumes"][0])[0]
                    nm = ":0.%s.%s" % (chr(e["dir"]), e["name"].decode("latin-1"))
                except (IndexError, KeyError):
                    pass
                cmd = [out if a == "OUT" else (nm if a == "NAME" else a) for a in cmd]
                argv = [dfs] + (["--verbose"] if case["verbose"] else []) + ["--file", img] + cmd
                v.classes.append("ext-" + case["ext"] + (".gz" if case["gz"] else ""))
            else:
                args, fsize = cli_materialise(case, sb, out, v)
                argv = [dfs] + args
                v.classes.append("cli")
            r = runtool.run([a.encode("latin-1") if any(ord(ch) > 127 for ch in a) else a for a in argv], sb.path)
            v.evaluations += 1
            self._verdict(v, r, argv, sb, fsize, case)
        return v

    def _verdict(self, v, r, argv, sb, fsize, case):
        past = r.status == 0 or (r.status is not None and b"cannot use image file" not in r.stderr
                                 and b"not recognized" not in r.stderr and b"does not seem to be" not in r.stderr)
        if past:
            v.nontrivial = True
            v.classes.append("past-container-parsing")
        build = case["variant_build"]
        if r.timed_out:
            if runtool.confirm_timeout(argv, sb.path):
                v.fail("C07/timeout", "does not terminate within 10 s (%s build)" % build, r.brief())
            return
        if r.sanitizer_report():
            v.fail("C07/sanitizer", "sanitizer report (%s build)" % build, r.brief())
        elif r.assertion_failed():
            v.fail("C07/assert", "assertion failure (%s build)" % build, r.brief())
        elif r.signal is not None:
            k = "C07/uncaught-exception" if b"terminate called" in r.stderr else "C07/signal"
            v.fail(k, "killed by signal %d (%s build)" % (r.signal, build), r.brief())
        elif r.status not in (0, 1, 2):
            v.fail("C07/status", "exit status %s" % r.status, r.brief())
        elif r.status != 0 and not r.stderr.strip():
            v.fail("C07/silent-failure", "exit %d without a diagnostic" % r.status, r.brief())
        if build != "asan" and not r.timed_out and case["seed"] % 4 == 0:
            # peak RSS of this one execution, measured with time(1)
            mfile = os.path.join(sb.path, "maxrss.txt")
            r2 = runtool.run(["/usr/bin/time", "-q", "-f", "%M", "-o", mfile] + list(argv), sb.path)
            v.evaluations += 1
            try:
                with open(mfile) as fh:
                    kb = int(fh.read().split()[-1])
            except (OSError, ValueError, IndexError):
                kb = 0
            limit_kb = (256 << 10) + 64 * (fsize >> 10)
            v.classes.append("rss-measured")
            if kb > limit_kb:
                v.fail("C07/memory", "peak RSS %d KiB for a %d-byte image (limit %d KiB)" % (kb, fsize, limit_kb),
                       r2.brief())

    # ---------------------------------------------------------------- fuzz
    def _target(self, ctx):
        return fuzzrun.build_target(ctx.builds["fuzz"], "fuzz_dfs")

    def _judge_fuzz(self, ctx, case, v):
        t = self._target(ctx)
        with runtool.Sandbox("c07f") as sb:
            p = sb.file("input.bin", case["input"])
            rc, out = fuzzrun.replay(t, p)
            v.evaluations += 1
            if rc != 0:
                i = out.find(b"ORACLE-VIOLATION")
                key = "C07/fuzz-oracle" if i >= 0 else ("C07/fuzz-timeout" if b"timeout" in out[-3000:] else "C07/fuzz-crash")
                v.fail(key, "fuzz_dfs input fails: %s" % (out[i:i + 160].decode("latin-1") if i >= 0 else "crash"),
                       {"output": out[-2500:]})
        return v

    def extra_phase(self, ctx, tier, seed):
        t = self._target(ctx)
        res = fuzzrun.campaign(t, os.path.join(VERIF, "corpus", "fuzz_dfs"), self.fuzz_s[tier], seed, max_len=65536)
        try:
            nt = fuzzrun.count_nontrivial(t, res["corpus"])
            failing = []
            arts = [(p, txt, "C07/fuzz-crash") for p, txt in res["crashes"][:4]]
            # timeouts are what "terminates promptly" means: confirm them (the replay uses -timeout=10)
            for p in [a for a in res["other_artifacts"] if os.path.basename(a).startswith("timeout-")][:2]:
                arts.append((p, "timeout artifact", "C07/fuzz-timeout"))
            for path, txt, key in arts:
                with open(path, "rb") as fh:
                    data = fh.read()
                failing.append({"case": {"kind": "fuzz", "target": "fuzz_dfs", "input": data},
                                "failures": [{"key": key, "msg": txt[-600:]}], "shrunk": False})
            samples = []
            for f in sorted(os.listdir(res["corpus"]))[:2]:
                with open(os.path.join(res["corpus"], f), "rb") as fh:
                    d = fh.read()
                samples.append({"fuzz_dfs_corpus_entry": {"bytes": len(d), "trailer(a3,a2,a1,verbose,cmd,gz,ext)": d[-7:].hex(),
                                                          "head": d[:24].hex()}})
            return {"evaluations": res["execs"], "nontrivial": nt, "failing": failing, "samples": samples,
                    "coverage": {"fuzz_dfs": {"executions": res["execs"], "final_corpus_entries": res["corpus_files"],
                                              "nontrivial_corpus_entries": nt, "crash_artifacts": len(res["crashes"]),
                                              "other_artifacts(timeout/oom/slow)": len(res["other_artifacts"]),
                                              "seconds": self.fuzz_s[tier], "processes": 16}}}
        finally:
            shutil.rmtree(res["work"], ignore_errors=True)


CHECK = C07()
