"""C08 -- bbcbasic_to_text fails cleanly on arbitrary input files and options."""
import os
import shutil

from hypothesis import strategies as st

from vlib import build as buildmod, fuzzrun, gen_basic, ref_basic as rb, runtool
from vlib.harness import CheckBase, Verdict, VERIF

VARIANTS = ("asan", "ndebug", "msan-basic", "dbg")
LISTO_VALUES = [None, "0", "1", "2", "3", "4", "5", "6", "7", "-1", "8", "x", "", "7x", "99999999999999999999"]


@st.composite
def mutated(draw):
    prog = draw(gen_basic.program(max_lines=6))
    data = bytearray(rb.serialise(prog["dialect"], [(n, bytes(b)) for n, b in prog["lines"]]))
    for _ in range(draw(st.integers(0, 4))):
        if not data:
            break
        op = draw(st.sampled_from(["flip", "set", "ins", "del", "trunc", "dup"]))
        pos = draw(st.integers(0, len(data) - 1))
        if op == "flip":
            data[pos] ^= 1 << draw(st.integers(0, 7))
        elif op == "set":
            data[pos] = draw(st.sampled_from([0, 1, 3, 4, 0x0D, 0x22, 0x8D, 0xC6, 0xC7, 0xC8, 0xFF, 0x18]))
        elif op == "ins":
            data[pos:pos] = draw(st.binary(min_size=1, max_size=4))
        elif op == "del":
            del data[pos:pos + draw(st.integers(1, 4))]
        elif op == "trunc":
            del data[pos:]
        elif op == "dup":
            data[pos:pos] = data[pos:pos + draw(st.integers(1, 8))]
    return prog["dialect"], bytes(data)


@st.composite
def cli_case(draw):
    files = []
    dialect = None
    for _ in range(draw(st.sampled_from([1, 1, 1, 2, 3]))):
        if draw(st.booleans()):
            d, data = draw(mutated())
            dialect = dialect or d
        else:
            data = draw(st.binary(max_size=draw(st.sampled_from([8, 64, 600]))))
        files.append(data)
    dsel = draw(st.sampled_from(["same", "same", "none", "none", "other", "bogus"]))
    if dsel == "same":
        dialect = dialect or draw(st.sampled_from(rb.DIALECT_NAMES))
    elif dsel == "other":
        dialect = draw(st.sampled_from(rb.DIALECT_NAMES))
    elif dsel == "bogus":
        dialect = draw(st.sampled_from(["bogus", "", "6502 ", "help"]))
    else:
        dialect = None
    return {"kind": "cli", "files": files, "dialect": dialect, "listo": draw(st.sampled_from(LISTO_VALUES)),
            "stdin": draw(st.integers(0, 3)) == 0,
            "extra": draw(st.sampled_from([[], [], [], [], ["--nonsense"], ["-z"], ["--help"], ["--listo"], ["--"],
                                           ["--dump-token-maps"], ["--dump-token-maps=-"], ["-D", "-"], ["-D"],
                                           ["--dump-token-maps", "-"], ["-d", "6502"], ["-d"], ["-l", "3"], ["-l"],
                                           ["--dialect"], ["--dia=ARM"], ["--help=1"], ["-h"], ["-Dnonexistent/dir/x"]])),
            "missing": draw(st.integers(0, 9)) == 0,
            "variant": draw(st.sampled_from(VARIANTS))}


class C08(CheckBase):
    pid = "C08"
    level = "exploration"
    variants = ("asan", "ndebug", "msan-basic", "dbg", "fuzz")
    rule = ("(1) Hypothesis CLI cases: 1-3 input files (random bytes or grammar programs with 0-4 byte-level "
            "mutations/truncations) x {each of 10 dialect names, no --dialect at all, unknown dialect} x LISTO "
            "{absent, 0-7, invalid} x file/stdin x unknown options, run on the ASan+UBSan, NDEBUG, MSan (NDEBUG) "
            "and default builds; oracle: exit 0/1, no signal, no sanitizer report, no time-out, exit != 0 => "
            "stderr non-empty.  (2) libFuzzer target fuzz_basic (ASan+UBSan+asserts) with the same oracle inside "
            "the target, 16 processes.  Non-trivial: a CLI case whose input reached line decoding (a line was "
            "listed or a token-level diagnostic printed) or that omits --dialect; a fuzz corpus entry that "
            "reached line decoding (counted by replaying the final corpus)")
    assumptions = ("time-outs count only after three repeats", "MSan build has no instrumented libc++ issue: pure C")
    min_nontrivial = {"quick": 150, "thorough": 1000}
    budget_s = {"quick": 30, "thorough": 600}
    fuzz_s = {"quick": 25, "thorough": 900}

    def strategy(self, tier):
        return cli_case()

    def examples(self, tier):
        return 4000 if tier == "quick" else 100000

    def sample(self, case):
        return case

    def judge(self, ctx, case):
        v = Verdict()
        if case["kind"] == "fuzz":
            return self._judge_fuzz(ctx, case, v)
        tool = ctx.tool(case["variant"], "bbcbasic_to_text")
        with runtool.Sandbox("c08") as sb:
            argv = [tool]
            if case["dialect"] is not None:
                argv.append("--dialect=" + case["dialect"])
            if case["listo"] is not None:
                argv.append("--listo=" + case["listo"])
            argv += case["extra"]
            stdin = None
            for i, data in enumerate(case["files"]):
                if i == 0 and case["stdin"]:
                    argv.append("-")
                    stdin = data
                else:
                    argv.append(sb.file("in%d.bbc" % i, data))
            if case["missing"]:
                argv.append(os.path.join(sb.path, "does-not-exist.bbc"))
            r = runtool.run(argv, sb.path, stdin=stdin)
            v.evaluations += 1
            tag = "C08/%s" % case["variant"]
            if case["dialect"] is None:
                v.classes.append("no-dialect")
                v.nontrivial = True
            if r.stdout.count(b"\n") >= 1 or b"token" in r.stderr or b"end-of-line" in r.stderr:
                v.classes.append("reached-decode-line")
                v.nontrivial = True
            v.classes.append("variant-" + case["variant"])
            if r.timed_out:
                if runtool.confirm_timeout(argv, sb.path, stdin=stdin):
                    v.fail("C08/timeout", "does not terminate within 10 s", r.brief())
                return v
            if r.sanitizer_report():
                key = "C08/sanitizer"
                if case["dialect"] is None and (b"MemorySanitizer" in r.stderr):
                    key = "C08/uninit-default-dialect"
                v.fail(key, "sanitizer report (%s build)" % case["variant"], r.brief())
            elif r.signal is not None:
                v.fail("C08/signal", "killed by signal %d (%s build)" % (r.signal, case["variant"]), r.brief())
            elif r.status not in (0, 1):
                v.fail("C08/status", "exit status %s" % r.status, r.brief())
            elif r.status == 1 and not r.stderr.strip():
                v.fail("C08/silent-failure", "exit 1 without a diagnostic", r.brief())
        return v

    # ---------------------------------------------------------------- fuzz
    def _target(self, ctx):
        return fuzzrun.build_target(ctx.builds["fuzz"], "fuzz_basic")

    def _judge_fuzz(self, ctx, case, v):
        t = self._target(ctx)
        with runtool.Sandbox("c08f") as sb:
            p = sb.file("input.bin", case["input"])
            rc, out = fuzzrun.replay(t, p)
            v.evaluations += 1
            if rc != 0:
                key = "C08/fuzz-crash"
                if b"ORACLE-VIOLATION" in out:
                    key = "C08/fuzz-oracle"
                v.fail(key, "fuzz_basic input fails", {"output": out[-2500:]})
        return v

    def extra_phase(self, ctx, tier, seed):
        t = self._target(ctx)
        res = fuzzrun.campaign(t, os.path.join(VERIF, "corpus", "fuzz_basic"), self.fuzz_s[tier], seed,
                               max_len=2048)
        try:
            nt = fuzzrun.count_nontrivial(t, res["corpus"])
            failing = []
            for path, txt in res["crashes"][:5]:
                with open(path, "rb") as fh:
                    data = fh.read()
                failing.append({"case": {"kind": "fuzz", "target": "fuzz_basic", "input": data},
                                "failures": [{"key": "C08/fuzz-crash", "msg": txt[-800:]}], "shrunk": False})
            samples = []
            for f in sorted(os.listdir(res["corpus"]))[:2]:
                with open(os.path.join(res["corpus"], f), "rb") as fh:
                    samples.append({"fuzz_basic_corpus_entry": fh.read()[:64].hex()})
            return {"evaluations": res["execs"], "nontrivial": nt, "failing": failing, "samples": samples,
                    "coverage": {"fuzz_basic": {"executions": res["execs"], "final_corpus_entries": res["corpus_files"],
                                                "nontrivial_corpus_entries": nt, "crash_artifacts": len(res["crashes"]),
                                                "ignored_artifacts(timeout/oom/slow)": len(res["other_artifacts"]),
                                                "seconds": self.fuzz_s[tier], "processes": 16}}}
        finally:
            shutil.rmtree(res["work"], ignore_errors=True)


CHECK = C08()
