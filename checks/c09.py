"""C09 -- truncated / ill-formed programs are rejected and nothing is invented."""
from hypothesis import strategies as st

from vlib import gen_basic, ref_basic as rb, runtool
from vlib.harness import CheckBase, Verdict

FAULTS = ["bad-start", "short-len", "le-no-cr", "bad-token", "bad-ext", "8d-short", "ext-eol", "win-fastvar",
          "nul-byte"]


@st.composite
def prefix_case(draw):
    prog = draw(gen_basic.program(max_lines=8))
    # little-endian files only: 0-3 header-only lines (length byte 3: no body and no terminator, which the tool
    # accepts and lists as nothing) in front of -- or instead of -- the generated lines
    return {"mode": "prefix", "prog": prog, "listo": draw(st.integers(0, 7)),
            "cutseed": draw(st.integers(0, 10 ** 6)),
            "bare3": draw(st.sampled_from([0, 0, 0, 1, 2, 3])), "only_bare": draw(st.booleans())}


APPLICABLE = {
    "bad-start": ["6502", "32000", "PDP11", "ARM", "Mac"],
    "le-no-cr": ["Z80", "8086", "Windows", "SDL", "MacOSX"],
    "bad-token": [d for d in rb.DIALECT_NAMES if rb.CANON[d] != "Windows"],
    "bad-ext": ["ARM", "Mac"],
    "ext-eol": ["ARM", "Mac", "PDP11"],
    "win-fastvar": ["Windows", "SDL", "MacOSX"],
}


@st.composite
def fault_case(draw):
    fault = draw(st.sampled_from(FAULTS))
    dialect = draw(st.sampled_from(APPLICABLE.get(fault, rb.DIALECT_NAMES)))
    prog = draw(gen_basic.program(dialect=dialect, max_lines=6))
    return {"mode": "fault", "prog": prog, "listo": draw(st.integers(0, 7)),
            "fault": fault, "where": draw(st.integers(0, 1000)),
            "val": draw(st.integers(0, 255)), "after": draw(gen_basic.program(dialect=prog["dialect"], max_lines=2))}


@st.composite
def framing_case(draw):
    prog = draw(gen_basic.program(max_lines=6))
    muts = []
    for _ in range(draw(st.integers(1, 2))):
        muts.append([draw(st.sampled_from(["start", "len", "num", "term", "eof", "any"])), draw(st.integers(0, 10 ** 6)),
                     draw(st.one_of(st.sampled_from([0, 1, 2, 3, 4, 5, 0x0D, 0x0A, 0x20, 0xFF, 0xFE, 0x8D]),
                                    st.integers(0, 255)))])
    return {"mode": "framing", "prog": prog, "listo": draw(st.integers(0, 7)), "muts": muts}


@st.composite
def multi_case(draw):
    dialect = draw(st.sampled_from(rb.DIALECT_NAMES))
    files = []
    for _ in range(draw(st.integers(1, 4))):
        kind = draw(st.sampled_from(["valid", "valid", "trunc", "trunc", "empty"]))
        prog = draw(gen_basic.program(dialect=dialect, max_lines=5))
        files.append({"kind": kind, "prog": prog, "cut": draw(st.integers(1, 2000))})
    # `stale`: one more file is appended whose single line is the head of an earlier file's line, cut right in front of
    # a FOR / NEXT / REPEAT / UNTIL token -- whatever a reader leaves behind of the longer line sits just past this one
    return {"mode": "multi", "dialect": dialect, "listo": draw(st.integers(0, 7)), "files": files,
            "stale": draw(st.booleans())}


def prog_bytes(prog):
    return rb.serialise(prog["dialect"], [(n, bytes(b)) for n, b in prog["lines"]])


class C09(CheckBase):
    pid = "C09"
    level = "exploration"
    variants = ("dbg", "asan")
    rule = ("generated from valid programs P of the C03 grammar: (a) every proper non-empty prefix of P when "
            "|P| <= 300 bytes, else 60 cut points biased to line boundaries -> exit != 0, diagnostic, stdout a byte "
            "prefix of the tool's own listing of P; (b) one constructive framing/token fault (bad start byte, "
            "impossible length, LE line without CR, unassigned token, unassigned extension code, 0x8D cut off, "
            "extension byte at end of line, Windows fast variable, NUL) -> rejected, stdout = listing of the lines "
            "before the fault + a prefix of the faulty line; (b2) 1-2 single-byte substitutions at framing positions "
            "(line start, length, line number, terminator, end marker, anywhere) judged by a reference framing "
            "parser written from doc/bbcbasic.5 (reject => tool must reject and keep the complete lines; accept => "
            "same listing as the reference; documents silent => skipped); (c) histories of 1-4 input files (valid / truncated / "
            "empty, optionally followed by a file whose one line is the head of an earlier line cut in front of a "
            "loop token) -> stdout = concatenation of the per-file outputs, exit = max.  Non-trivial: a cut inside a "
            "line body, a fault after >= 1 good line, or a history containing a truncated file after another file")
    assumptions = ("O(P) is the tool's own output on the intact file (it must exit 0 there)",
                   "LE lines of length 3 (no CR at all) are accepted by the code deliberately; they appear only in "
                   "front of a program in the truncation mode (a), where the oracle is the tool's own listing of the "
                   "intact file; if the intact file is rejected the case is skipped")
    min_nontrivial = {"quick": 150, "thorough": 2000}
    budget_s = {"quick": 40, "thorough": 900}

    def strategy(self, tier):
        return st.one_of(prefix_case(), fault_case(), framing_case(), framing_case(), multi_case())

    def examples(self, tier):
        return 2500 if tier == "quick" else 100000

    def sample(self, case):
        c = dict(case)
        if "prog" in c:
            c["prog"] = {"dialect": c["prog"]["dialect"], "lines": c["prog"]["lines"][:3]}
        if "after" in c:
            c["after"] = len(c["after"]["lines"])
        if "files" in c:
            c["files"] = [{"kind": f["kind"], "cut": f["cut"], "nlines": len(f["prog"]["lines"])} for f in c["files"]]
        return c

    def judge(self, ctx, case):
        v = Verdict()
        tool = ctx.tool("asan" if (case.get("listo", 0) % 5 == 0) else "dbg", "bbcbasic_to_text")
        with runtool.Sandbox("c09") as sb:
            if case["mode"] == "prefix":
                self._prefix(v, tool, sb, case)
            elif case["mode"] == "fault":
                self._fault(v, tool, sb, case)
            elif case["mode"] == "framing":
                self._framing(v, tool, sb, case)
            else:
                self._multi(v, tool, sb, case)
        return v

    # ------------------------------------------------------------ (a)
    def _prefix(self, v, tool, sb, case):
        prog = case["prog"]
        dialect = prog["dialect"]
        data = prog_bytes(prog)
        if case.get("bare3") and rb.CANON[dialect] not in rb.BIG_ENDIAN:
            bare = b"".join(bytes([3, (10 * k) & 0xFF, 0]) for k in range(1, case["bare3"] + 1))
            data = bare + (b"\x00\xFF\xFF" if case.get("only_bare") else data)
            v.classes.append("header-only-lines-first")
        listo = case["listo"]
        args = [tool, "--dialect", dialect, "--listo", str(listo)]
        p = sb.file("full.bbc", data)
        full = runtool.run(args + [p], sb.path)
        v.evaluations += 1
        if full.status != 0 or full.signal is not None:
            v.skipped = "intact-program-rejected"     # C03's business
            return
        n = len(data)
        if n <= 300:
            cuts = list(range(1, n))
        else:
            # line boundaries and their neighbours, plus spread points
            bounds = set()
            pos = 0
            be = rb.CANON[dialect] in rb.BIG_ENDIAN
            for num, body in prog["lines"]:
                ln = len(body) + 4
                for d in (-1, 0, 1, 2, 3, 4, 5):
                    bounds.add(pos + d)
                pos += ln
            for d in range(-3, 1):
                bounds.add(n + d)
            seed = case["cutseed"]
            for i in range(30):
                bounds.add(1 + (seed * 7919 + i * 104729) % (n - 1))
            cuts = sorted(c for c in bounds if 1 <= c < n)[:90]
        # classify: is some cut strictly inside a line body?
        v.classes.append("prefix")
        hdr = 4
        if any(len(b) > 0 for _, b in prog["lines"]):
            v.nontrivial = True
            v.classes.append("cut-inside-line-body")
        for c in cuts:
            q = sb.file("cut.bbc", data[:c])
            r = runtool.run(args + [q], sb.path)
            v.evaluations += 1
            self._rejected(v, r, "prefix of %d/%d bytes (%s)" % (c, n, dialect), "C09/prefix")
            if not full.stdout.startswith(r.stdout):
                v.fail("C09/prefix-invented-text",
                       "output for the %d-byte prefix is not a prefix of the intact listing (%s, listo %d)"
                       % (c, dialect, listo),
                       {"cut": c, "got": r.stdout[-200:], "full": full.stdout[:400], "data": data[:c][-64:]})
                break

    def _rejected(self, v, r, what, key):
        if r.timed_out:
            v.fail(key + "-timeout", "%s: timed out" % what, r.brief())
        elif r.signal is not None:
            v.fail(key + "-signal", "%s: killed by signal %d" % (what, r.signal), r.brief())
        elif r.status == 0:
            v.fail(key + "-accepted", "%s: exit status 0" % what, r.brief())
        elif not r.stderr.strip():
            v.fail(key + "-silent", "%s: exit %d without a diagnostic" % (what, r.status), r.brief())

    # ------------------------------------------------------------ (b)
    def _fault(self, v, tool, sb, case):
        prog = case["prog"]
        dialect = prog["dialect"]
        d = rb.CANON[dialect]
        be = d in rb.BIG_ENDIAN
        lines = [(n, bytes(b)) for n, b in prog["lines"]]
        after = [(n, bytes(b)) for n, b in case["after"]["lines"]]
        fault = case["fault"]
        val = case["val"]
        listo = case["listo"]
        good = rb.serialise(dialect, lines, eof=False)
        tail = rb.serialise(dialect, after, eof=True)
        bad_body = None      # token-level fault: a line whose body is invalid from position k
        raw = None           # framing fault: raw bytes replacing a line
        if fault == "bad-start":
            if not be:
                v.skipped = "fault-not-applicable"
                return
            b0 = val if val != 0x0D else 0x0E
            raw = bytes([b0, 0, 10, 5, 0xF1])
        elif fault == "short-len":
            if be:
                raw = bytes([0x0D, 0, 10, val % 4])
            else:
                ln = 1 + val % 2
                raw = bytes([ln]) + bytes([10, 0, 0x0D])
        elif fault == "le-no-cr":
            if be:
                v.skipped = "fault-not-applicable"
                return
            body = b"\xF1A"
            last = val if val != 0x0D else 0x0A
            raw = bytes([len(body) + 4, 10, 0]) + body + bytes([last])
        else:
            pre = b"\xF1 A"[: (case["where"] % 5)]
            if fault == "bad-token":
                cands = [b for b in range(1, 0x11) if b != 0x0D] if d != "Windows" else []
                if not cands:
                    v.skipped = "fault-not-applicable"
                    return
                bad_body = (pre, bytes([cands[val % len(cands)]]) + b"Z")
            elif fault == "nul-byte":
                bad_body = (pre, b"\0Z")
            elif fault == "bad-ext":
                if d not in ("ARM", "Mac"):
                    v.skipped = "fault-not-applicable"
                    return
                intro = (0xC6, 0xC7, 0xC8)[val % 3]
                codes = [c for c in range(1, 256) if c not in rb.TABLES[d][1][intro] and c != 0x0D]
                bad_body = (pre, bytes([intro, codes[case["where"] % len(codes)]]) + b"Z")
            elif fault == "8d-short":
                k = val % 3
                bad_body = (pre, b"\x8D" + b"\x54\x40\x40"[:k])
            elif fault == "ext-eol":
                if d not in ("ARM", "Mac", "PDP11"):
                    v.skipped = "fault-not-applicable"
                    return
                intro = 0xC8 if d == "PDP11" else (0xC6, 0xC7, 0xC8)[val % 3]
                bad_body = (pre, bytes([intro]))
            elif fault == "win-fastvar":
                if d != "Windows":
                    v.skipped = "fault-not-applicable"
                    return
                bad_body = (pre, bytes([0x18 + val % 8, 1, 2]) + b"Z")
        if bad_body is not None:
            pre, rest = bad_body
            raw = rb.serialise(dialect, [(10, pre + rest)], eof=False)
            # the reference must reject it too
            try:
                rb.detokenise_line(dialect, pre + rest)
                v.skipped = "reference-accepts-fault"
                return
            except rb.Reject:
                pass
        data = good + raw + tail
        try:
            before, neg = rb.listing(dialect, listo, lines)
        except rb.Reject:
            v.skipped = "reference-rejects-base"
            return
        p = sb.file("fault.bbc", data)
        r = runtool.run([tool, "--dialect", dialect, "--listo", str(listo), p], sb.path)
        v.evaluations += 1
        v.classes.append("fault-" + fault)
        if lines:
            v.nontrivial = True
        self._rejected(v, r, "fault %s in %s" % (fault, dialect), "C09/fault-" + fault)
        if neg:
            return
        if not r.stdout.startswith(before):
            v.fail("C09/fault-lost-lines", "lines before the %s fault were not listed intact" % fault,
                   {"got": r.stdout[:400], "want_prefix": before[:400]})
            return
        rest_out = r.stdout[len(before):]
        if bad_body is None:
            if rest_out:
                v.fail("C09/fault-invented-text", "text printed for an ill-framed line (%s)" % fault,
                       {"extra": rest_out[:200]})
        else:
            pre, rest = bad_body
            # what the faulty line may legitimately show: its number, indent and the good part
            try:
                part, _ = rb.listing(dialect, listo, lines + [(10, pre)])
                allowed = part[len(before):].rstrip(b"\n")
            except rb.Reject:
                return
            # an 0x8D / extension fault may be reported before or after the intro byte is printed: nothing more
            if not allowed.startswith(rest_out) and not rest_out.startswith(allowed):
                v.fail("C09/fault-invented-text", "unexpected text for the faulty line (%s)" % fault,
                       {"extra": rest_out[:200], "allowed": allowed[:200]})
            elif rest_out.startswith(allowed) and len(rest_out) > len(allowed):
                v.fail("C09/fault-invented-text", "text beyond the fault point was printed (%s)" % fault,
                       {"extra": rest_out[:200], "allowed": allowed[:200]})

    # ------------------------------------------------------------ (b2) single-byte framing corruption
    def _framing(self, v, tool, sb, case):
        prog = case["prog"]
        dialect = prog["dialect"]
        d = rb.CANON[dialect]
        be = d in rb.BIG_ENDIAN
        lines = [(n, bytes(b)) for n, b in prog["lines"]]
        data = bytearray(prog_bytes(prog))
        # positions of the framing bytes
        pos = {"start": [], "len": [], "num": [], "term": [], "eof": []}
        i = 0
        for num, body in lines:
            if be:
                pos["start"].append(i)
                pos["num"] += [i + 1, i + 2]
                pos["len"].append(i + 3)
                i += 4 + len(body)
            else:
                pos["len"].append(i)
                pos["num"] += [i + 1, i + 2]
                pos["term"].append(i + 3 + len(body))
                i += 4 + len(body)
        pos["eof"] = list(range(i, len(data)))
        changed = False
        for kind, where, val in case["muts"]:
            cands = pos.get(kind) or list(range(len(data)))
            if kind == "any":
                cands = list(range(len(data)))
            if not cands:
                continue
            p = cands[where % len(cands)]
            if data[p] != val:
                data[p] = val
                changed = True
        if not changed:
            v.skipped = "mutation-was-identity"
            return
        listo = case["listo"]
        try:
            ref_lines = rb.parse_program(dialect, bytes(data))
            verdict = "accept"
        except rb.Ambiguous:
            v.skipped = "documents-silent"
            return
        except rb.Reject as ex:
            ref_lines = ex.lines
            verdict = "reject"
        try:
            before, neg = rb.listing(dialect, listo, ref_lines)
        except rb.Reject:
            return
        if neg:
            v.skipped = "negative-indent"
            return
        p = sb.file("framing.bbc", bytes(data))
        r = runtool.run([tool, "--dialect", dialect, "--listo", str(listo), p], sb.path)
        v.evaluations += 1
        v.classes.append("framing-" + verdict)
        v.nontrivial = True
        if r.signal is not None or r.timed_out:
            v.fail("C09/framing-crash", "signal/timeout on a framing-corrupted program", r.brief())
            return
        if verdict == "reject":
            self._rejected(v, r, "framing corruption %s in %s" % ([m[0] for m in case["muts"]], dialect), "C09/framing")
            if not r.stdout.startswith(before):
                v.fail("C09/framing-lost-lines", "complete lines before the corruption were not listed intact",
                       {"got": r.stdout[:300], "want_prefix": before[:300]})
        else:
            if r.status != 0 or r.stdout != before:
                v.fail("C09/framing-valid-rejected", "the corrupted file is still a well-formed program (reference "
                       "parser) but the listing differs or exit %s" % r.status,
                       {"got": r.stdout[:300], "want": before[:300], "stderr": r.stderr[:200]})

    # ------------------------------------------------------------ (c)
    def _multi(self, v, tool, sb, case):
        dialect = case["dialect"]
        args = [tool, "--dialect", dialect, "--listo", str(case["listo"])]
        paths = []
        singles = []
        kinds = []
        for i, f in enumerate(case["files"]):
            data = prog_bytes(f["prog"])
            if f["kind"] == "trunc":
                if len(data) < 2:
                    data = b""
                    kind = "empty"
                else:
                    data = data[:1 + f["cut"] % (len(data) - 1)]
                    kind = "trunc"
            elif f["kind"] == "empty":
                data = b""
                kind = "empty"
            else:
                kind = "valid"
            kinds.append(kind)
            p = sb.file("f%d.bbc" % i, data)
            paths.append(p)
            r = runtool.run(args + [p], sb.path)
            v.evaluations += 1
            if r.signal is not None or r.timed_out:
                v.fail("C09/multi-single-crash", "file %d alone: signal/timeout" % i, r.brief())
                return
            singles.append(r)
        if case.get("stale"):
            head = None
            for f, k in zip(case["files"], kinds):
                if k == "empty":
                    continue
                for num, body in f["prog"]["lines"]:
                    body = bytes(body)
                    for n in range(len(body)):
                        if body[n] in (0xE3, 0xED, 0xF5, 0xFD) and body[:n].count(b'"') % 2 == 0 and 0x8D not in body[max(0, n - 3):n]:
                            head = body[:n]
                            break
                    if head is not None:
                        break
                if head is not None:
                    break
            if head is not None:
                # two more files: the full line alone (so that it is the last thing read), then its head
                extra = []
                for tag, ln in (("whole-line", body), ("head-of-that-line", head)):
                    p = sb.file("stale-%s.bbc" % tag, rb.serialise(dialect, [(10, ln)]))
                    rs = runtool.run(args + [p], sb.path)
                    v.evaluations += 1
                    if rs.signal is not None or rs.timed_out:
                        extra = []
                        break
                    extra.append((p, rs, tag))
                for p, rs, tag in extra:
                    paths.append(p)
                    singles.append(rs)
                    kinds.append(tag)
                if extra:
                    v.nontrivial = True
                    v.classes.append("line-that-is-the-head-of-the-previous-line")
        r = runtool.run(args + paths, sb.path)
        v.evaluations += 1
        v.classes.append("multi-%d" % len(paths))
        if any(k == "trunc" for k in kinds[1:]):
            v.nontrivial = True
            v.classes.append("truncated-after-other-file")
        want = b"".join(s.stdout for s in singles)
        wstatus = max(s.status for s in singles)
        if r.signal is not None or r.timed_out:
            v.fail("C09/multi-crash", "multi-file run: signal/timeout", r.brief())
        elif r.stdout != want:
            v.fail("C09/multi-dependence", "output for %s differs from the concatenation of per-file outputs" % kinds,
                   {"got": r.stdout[:600], "want": want[:600]})
        elif r.status != wstatus:
            v.fail("C09/multi-status", "exit %s, expected %s" % (r.status, wstatus), r.brief())


CHECK = C09()
