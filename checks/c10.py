"""C10 -- gzip compression of an image file is transparent."""
import os

from hypothesis import strategies as st

from checks import c07
from vlib import containers, disc, gen, runtool
from vlib.harness import CheckBase, Verdict

COMMANDS = [["cat"], ["info", "#.*"], ["type", "--binary", "NAME"], ["dump", "NAME"], ["dump-sector", "0", "1", "2"],
            ["dump-sector", "0", "2", "17"], ["free"], ["space"], ["sector-map"], ["show-titles"], ["list", "NAME"],
            ["--show-config", "cat"],
            # the END of the image (what a reader that loses the tail of the compressed stream gets wrong)
            ["dump-sector", "0", "LT", "LS"], ["type", "--binary", "LASTNAME"], ["dump-sector", "0", "LT", "LS"]]


@st.composite
def case_st(draw):
    base = draw(c07.image_case())
    base["muts"] = []
    base["gz"] = 0
    sparse = draw(st.integers(0, 3)) == 0
    if sparse:
        # a nearly empty disc: the whole .gz fits into one 512-byte read and the last inflate() call can fill the
        # 1024-byte output buffer exactly while finishing the stream
        base["surface"]["fill"] = {"kind": "zero", "seed": 0}
        for vol in base["surface"]["volumes"]:
            for cat in vol["cats"]:
                for e in cat:
                    e["body"] = {"kind": "zero", "seed": 0}
    mode = draw(st.sampled_from(["positive", "positive", "truncate", "bitflip", "notgzip", "empty", "othercompress"]))
    c = {"image": base, "mode": mode,
         "level": draw(st.integers(0, 9)), "members": draw(st.sampled_from([1, 1, 1, 2, 3])),
         "fname": draw(st.sampled_from([None, None, b"disc.ssd", b"x" * 300])),
         "comment": draw(st.sampled_from([None, None, b"hello"])),
         "extra": draw(st.sampled_from([None, None, b"AB\x04\x00data"])),
         "hcrc": draw(st.booleans()), "mtime": draw(st.sampled_from([0, 1, 0x7FFFFFFF])),
         "align": draw(st.sampled_from([None, None, [512, 0], [512, 1], [512, 511], [1024, 0], [1024, 1], [512, 100]])),
         "align_last": draw(st.booleans()), "tail_bytes": draw(st.sampled_from([None, None, 1, 100, 300])),
         "tailcut": draw(st.sampled_from([0, 0, 0, 1, 255, 256, 257, 511, 512, 513, 768, 1023, 1024, 1025])), "sparse": sparse,
         # a second, tiny image in front of X (compressed whenever X is): per-image state must not leak between them
         "pair": draw(st.integers(0, 3)) == 0,
         "seed": draw(st.integers(0, 10 ** 6)), "cmds": draw(st.lists(st.integers(0, len(COMMANDS) - 1), min_size=2,
                                                                     max_size=4, unique=True))}
    return c


class C10(CheckBase):
    pid = "C10"
    level = "exploration"
    variants = ("dbg", "asan")
    rule = ("generated image files of every container (ssd/sdd/dsd/ddd/mmb/hfe/mfm, Acorn/Watford/Opus, lengths cut "
            "to values around multiples of the 512/1024-byte decompression buffers; a quarter of them nearly empty so that "
            "the whole .gz fits one 512-byte read) compressed with Python zlib at "
            "levels 0-9, optional FNAME/FCOMMENT/FEXTRA/FHCRC/MTIME header fields, 1-3 gzip members whose ends are "
            "optionally padded (FEXTRA) onto / next to multiples of the 512- and 1024-byte buffers (the last member "
            "optionally left unpadded and only 1-300 bytes long).  Positive: "
            "stdout and exit status of 2-4 commands on X.gz equal those on X (a quarter of the runs with a second, "
            "tiny image attached in front, compressed whenever X is).  Negative: every truncation point of "
            "the .gz (all when <= 2 KiB, else 100), single-bit flips, a raw image renamed .gz, an empty file, the same "
            "image as a zlib (RFC 1950) / raw deflate / bzip2 / xz stream; an "
            "independent inflater (Python zlib, member loop) is the referee: if it rejects the stream dfs must exit "
            "!= 0 with a diagnostic and print nothing; if it still yields the same bytes dfs must behave as for the "
            "intact file.  Non-trivial: compressed size not a multiple of 512, >= 2 members, a non-ssd container, or "
            "a corruption the referee rejects")
    assumptions = ("trailing garbage after the last gzip member is not judged", "stderr is not compared (it names the file)")
    min_nontrivial = {"quick": 100, "thorough": 1000}
    budget_s = {"quick": 40, "thorough": 900}

    def strategy(self, tier):
        return case_st()

    def examples(self, tier):
        return 700 if tier == "quick" else 20000

    def enumerated(self, tier):
        # one full-size MMB archive (8192 + 511 x 204800 bytes) through gzip: thorough tier only (dfs inflates it
        # into a 100 MB temporary file)
        if tier == "thorough":
            yield {"full_mmb": True, "level": 1}

    def sample(self, case):
        if case.get("full_mmb"):
            return case
        c = dict(case)
        c["image"] = {k: case["image"][k] for k in ("ext", "variant", "tracks", "spt")}
        return c

    def _full_mmb(self, ctx, case, v):
        import gzip
        dfs = ctx.tool("dbg", "dfs")
        ent = {"name": b"F", "dir": ord("$"), "locked": False, "load": 0, "exec": 0, "length": 700, "start": 2,
               "body": {"kind": "rand", "seed": 7}}
        surf = {"variant": "acorn", "tracks": 80, "spt": 10, "fill": {"kind": "zero", "seed": 0},
                "volumes": [{"label": None, "title": b"FULLMMB", "cycle": 0, "boot": 0, "total": 800, "cats": [[ent]]}]}
        img = disc.build_surface(surf)
        with runtool.Sandbox("c10m") as sb:
            plain = os.path.join(sb.path, "a.mmb")
            containers.write_mmb(plain, {0: (0x0F, img), 255: (0x00, img), 510: (0x0F, img)})
            z = os.path.join(sb.path, "z")
            os.makedirs(z)
            zp = os.path.join(z, "a.mmb.gz")
            with open(plain, "rb") as fi, gzip.open(zp, "wb", compresslevel=case["level"]) as fo:
                while True:
                    chunk = fi.read(1 << 20)
                    if not chunk:
                        break
                    fo.write(chunk)
            v.nontrivial = True
            v.classes.append("full-size-mmb")
            for cmd in (["--drive-first", "type", "--binary", ":510.$.F"], ["--drive-first", "show-titles", "255"],
                        ["--drive-first", "dump-sector", "510", "79", "9"]):
                pre = [c for c in cmd if c.startswith("--drive")]
                rest = [c for c in cmd if not c.startswith("--drive")]
                a = runtool.run([dfs] + pre + ["--file", plain] + rest, sb.path, timeout=120)
                b = runtool.run([dfs] + pre + ["--file", zp] + rest, sb.path, timeout=120)
                v.evaluations += 2
                if a.status != b.status or a.stdout != b.stdout or b.signal is not None:
                    v.fail("C10/full-mmb", "%s differs between a.mmb and a.mmb.gz" % " ".join(rest),
                           {"gz": b.brief(), "plain": a.brief()})
        return v

    def _cmd(self, case, cmd, out):
        nm = "F"
        try:
            e = disc.all_entries(case["image"]["surface"]["volumes"][0])[0]
            nm = ":0.%s.%s" % (chr(e["dir"]), e["name"].decode("latin-1"))
        except (IndexError, KeyError):
            pass
        last = nm
        try:
            ents = disc.all_entries(case["image"]["surface"]["volumes"][0])
            e = max(ents, key=lambda e_: e_["start"] * 256 + e_["length"])
            last = ":0.%s.%s" % (chr(e["dir"]), e["name"].decode("latin-1"))
        except (IndexError, KeyError, ValueError):
            pass
        ic = case["image"]
        lt, ls = str(ic.get("tracks", 40) - 1), str(ic.get("spt", 10) - 1)
        if ic.get("ext") == "mmb":
            lt, ls = "79", "9"
        sub = {"OUT": out, "NAME": nm, "LASTNAME": last, "LT": lt, "LS": ls}
        return [sub.get(a, a) for a in cmd]

    def judge(self, ctx, case):
        v = Verdict()
        if case.get("full_mmb"):
            return self._full_mmb(ctx, case, v)
        dfs = ctx.tool("asan" if case["seed"] % 5 == 0 else "dbg", "dfs")
        img_case = case["image"]
        try:
            data, _ = c07.build_image(img_case)
        except Exception as ex:
            v.skipped = "generator-error:%s" % type(ex).__name__
            return v
        data = bytes(data)
        if case["tailcut"] and len(data) > 20 * 256 + case["tailcut"]:
            data = data[:len(data) - case["tailcut"]]
        ext = img_case["ext"]
        gzdata = containers.gz(data, level=case["level"], fname=case["fname"], mtime=case["mtime"],
                               members=case["members"], extra=case["extra"], comment=case["comment"], hcrc=case["hcrc"],
                               align=tuple(case["align"]) if case.get("align") else None,
                               align_last=case.get("align_last", True), tail_bytes=case.get("tail_bytes"))
        assert containers.gunzip_reference(gzdata) == data
        mode = case["mode"]
        cl = ["mode-" + mode, "ext-" + ext]
        if len(gzdata) % 512:
            cl.append("size-not-multiple-of-512")
        if case["members"] > 1:
            cl.append("members>=2")
        if case.get("sparse"):
            cl.append("sparse-image")
        if len(gzdata) <= 512:
            cl.append("gz<=512-bytes")
        if len(data) % 1024 == 0:
            cl.append("image-multiple-of-1024")
        if case.get("align"):
            cl.append("member-ends-aligned-to-buffer")
        v.classes.extend(cl)
        with runtool.Sandbox("c10") as sb:
            out = sb.mkdir("out")
            plain = sb.file("p/img." + ext, data)
            cmds = [self._cmd(case, COMMANDS[i], out) for i in case["cmds"]]

            pair = bool(case.get("pair")) and mode == "positive"
            if pair:
                tiny = disc.build_surface({"variant": "acorn", "tracks": 40, "spt": 10, "fill": {"kind": "zero", "seed": 0},
                                           "volumes": [{"label": None, "title": b"TINY", "cycle": 0, "boot": 0,
                                                        "total": 400, "cats": [[]]}]})[:768]
                tiny_plain = sb.file("p/tiny.ssd", tiny)
                tiny_gz = sb.file("z/tiny.ssd.gz", containers.gz(tiny, level=6))
                v.classes.append("second-image-in-front")
                # X becomes drive 1 (and up): re-address the commands
                cmds = [[("1" if (c_[0] == "dump-sector" and i == 1) else a.replace(":0.", ":1.")) for i, a in enumerate(c_)]
                        for c_ in cmds]

            def run_on(path, cmd):
                files = ["--file", path]
                if pair:
                    files = ["--drive-first", "--file", tiny_gz if path.endswith(".gz") else tiny_plain,
                             "--file", path, "--drive", "1"]
                r = runtool.run([dfs] + files + cmd if cmd[0] != "--show-config"
                                else [dfs, "--show-config"] + files + cmd[1:], sb.path, timeout=30)
                v.evaluations += 1
                return r
            if mode == "positive":
                z = sb.file("z/img." + ext + ".gz", gzdata)
                if ext != "ssd" or case["members"] > 1 or len(gzdata) % 512:
                    v.nontrivial = True
                for cmd in cmds:
                    a = run_on(plain, cmd)
                    b = run_on(z, cmd)
                    if b.signal is not None or b.timed_out:
                        v.fail("C10/crash", "%s on the .gz: signal/timeout" % cmd[0], b.brief())
                        return v
                    if a.status != b.status or a.stdout != b.stdout:
                        key = "C10/differs"
                        if case["members"] > 1:
                            key = "C10/multi-member"
                        elif b"density" in a.stderr + b.stderr or cmd[0] == "dump-sector" or True:
                            key = "C10/differs" if case["members"] == 1 else key
                        v.fail(key, "%s: X.gz (level %d, %d members) gives exit %s / %d bytes, X gives exit %s / %d bytes"
                               % (" ".join(cmd), case["level"], case["members"], b.status, len(b.stdout), a.status,
                                  len(a.stdout)), {"gz": b.brief(), "plain": a.brief()})
                        return v
                return v
            # ---------------- negative half
            variants = []
            if mode == "truncate":
                n = len(gzdata)
                if n <= 2048:
                    cuts = list(range(0, n))
                else:
                    cuts = sorted({(case["seed"] * 7919 + i * 104729) % n for i in range(100)} | {0, 1, 9, 10, 17, n - 1, n - 4,
                                                                                                   n - 8, n - 9})
                    cuts = [c_ for c_ in cuts if 0 <= c_ < n]
                variants = [("truncated to %d of %d bytes" % (c_, n), gzdata[:c_]) for c_ in cuts]
            elif mode == "bitflip":
                n = len(gzdata)
                for i in range(40):
                    p = (case["seed"] * 31 + i * 9973) % n
                    if i < 12:
                        p = i          # the header bytes
                    if i >= 30:
                        p = n - 1 - (i - 30)      # the trailer
                    b = bytearray(gzdata)
                    b[p] ^= 1 << ((case["seed"] + i) % 8)
                    variants.append(("bit flip at byte %d of %d" % (p, n), bytes(b)))
            elif mode == "notgzip":
                variants = [("raw image named .gz", data), ("raw image named .gz (first 300 bytes)", data[:300])]
            elif mode == "othercompress":
                # well-formed streams of OTHER compression formats holding the same image: not gzip
                import bz2
                import lzma
                import zlib
                co = zlib.compressobj(case["level"], zlib.DEFLATED, -15)
                raw = co.compress(data) + co.flush()
                variants = [("zlib (RFC 1950) stream, level %d" % case["level"], zlib.compress(data, case["level"])),
                            ("zlib stream with a 512-byte window", (lambda c: c.compress(data) + c.flush())(
                                zlib.compressobj(case["level"], zlib.DEFLATED, 9))),
                            ("raw deflate stream", raw), ("bzip2 file", bz2.compress(data)),
                            ("xz file", lzma.compress(data)),
                            ("gzip header followed by a zlib stream", gzdata[:10] + zlib.compress(data)),
                            ("compress(1) magic + deflate", b"\x1f\x9d\x90" + raw),
                            ("gzip magic with method 7", b"\x1f\x8b\x07" + gzdata[3:])]
            else:
                variants = [("empty file", b"")]
            for what, blob in variants:
                z = sb.file("z/img." + ext + ".gz", blob)
                try:
                    ref = containers.gunzip_reference(blob)
                except Exception:
                    ref = None
                cmd = cmds[0]
                b = run_on(z, cmd)
                if b.signal is not None or b.timed_out:
                    v.fail("C10/crash", "%s on %s: signal/timeout" % (cmd[0], what), b.brief())
                    return v
                if ref is None:
                    v.nontrivial = True
                    v.classes.append("referee-rejects")
                    if b.status == 0 or b.stdout:
                        v.fail("C10/corrupt-accepted", "%s: the referee rejects the stream but dfs %s gave exit %s and %d "
                               "bytes of output" % (what, cmd[0], b.status, len(b.stdout)), b.brief())
                        return v
                    if not b.stderr.strip():
                        v.fail("C10/silent", "%s: rejected without a diagnostic" % what, b.brief())
                        return v
                elif ref == data:
                    a = run_on(plain, cmd)
                    if a.status != b.status or a.stdout != b.stdout:
                        v.fail("C10/harmless-change", "%s still inflates to the same bytes but dfs behaves differently"
                               % what, {"gz": b.brief(), "plain": a.brief()})
                        return v
                # ref != data: (a flip that yields other data with a consistent CRC is practically impossible;
                # truncation at a member boundary yields a shorter valid stream) -- behaviour not judged
        return v


CHECK = C10()
