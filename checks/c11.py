"""C11 -- exit status 0 implies the output was completely written (fault enumeration)."""
import os

from hypothesis import strategies as st

from vlib import disc, gen, gen_basic, ref_basic as rb, runtool
from vlib.harness import CheckBase, Verdict

DFS_CMDS = ["cat", "info", "type", "type-binary", "list", "dump", "dump-sector", "free", "space", "sector-map",
            "show-titles", "help", "help-cmd", "option-help", "extract-files", "extract-unused"]
BASIC_CMDS = ["listing", "listing-stdin", "help", "dialect-help", "two-files"]
LEN_CLASSES = [0, 1, 2, 100, 4095, 4096, 4097, 8191, 8192, 8193, 12288, 65535, 65536, 65537]


@st.composite
def case_st(draw):
    tool = draw(st.sampled_from(["dfs", "dfs", "dfs", "basic"]))
    c = {"tool": tool, "seed": draw(st.integers(0, 10 ** 6)),
         "extra_k": draw(st.lists(st.integers(0, 70000), min_size=20, max_size=20))}
    if tool == "dfs":
        c["cmd"] = draw(st.sampled_from(DFS_CMDS))
        c["flen"] = draw(st.sampled_from(LEN_CLASSES))
        c["kind"] = draw(st.sampled_from(["text", "rand", "cr"]))
        c["nfiles"] = draw(st.sampled_from([1, 3, 31]))
        # all bodies tiny: the first refused write is then that of an .inf file (extract-files)
        c["tiny"] = draw(st.booleans())
        # a file right at the end of the disc, so that the LAST unused span is the smallest one (extract-unused)
        c["endfile"] = draw(st.booleans())
        c["tracks"] = draw(st.sampled_from([40, 80]))
        # extract-unused only: the image file itself is cut short inside the free area (reads of the missing sectors
        # fail, which the tool reports as a warning and survives)
        c["img_cut"] = draw(st.sampled_from([None, None, 10, 50, 100, 200]))
    else:
        c["cmd"] = draw(st.sampled_from(BASIC_CMDS))
        c["prog"] = draw(gen_basic.program(max_lines=draw(st.sampled_from([1, 5, 40]))))
        c["repeat"] = draw(st.sampled_from([1, 1, 20, 200]))
        # pad the listing (with REM lines) to an exact length around the 4096-byte stdio buffer
        c["target_len"] = draw(st.sampled_from([None, None, 4095, 4096, 4097, 4098, 8192, 8193, 12289, 16385]))
        c["listo"] = draw(st.integers(0, 7))
        c["trailing"] = draw(st.sampled_from([b"", b"", b"\x00", b"\x0d", b"trailing junk", b"\xff" * 300]))
    return c


class C11(CheckBase):
    pid = "C11"
    level = "fault_enumeration"
    variants = ("dbg", "asan")
    rule = ("for each drawn (tool, command, input) -- 16 dfs command forms and 5 bbcbasic_to_text forms; inputs whose "
            "fault-free output length L straddles 0, 1, 4095/4096/4097, 8191..8193, 65535..65537 -- the byte offset k "
            "at which the output device starts refusing writes is ENUMERATED over {0..min(L,64)} U {L-1, L, L+1} U "
            "{multiples of 4096 <= L, +-1} U 20 drawn values.  Injection: stdout is a regular file under "
            "RLIMIT_FSIZE = k with SIGXFSZ ignored (writes succeed up to k bytes, then fail with EFBIG); k = 0 also "
            "via /dev/full, and a pipe (capacity 4096) whose reader takes k in {0, 1, drawn, 4096, 8192} bytes and "
            "closes with SIGPIPE ignored (EPIPE; judged when L exceeds k + capacity + 4096); for extract-files / extract-unused the same limit hits the created host files.  Oracle: "
            "if fewer than L bytes arrived (or an extracted file is short/missing) the exit status is non-zero and "
            "stderr non-empty; k >= L must give exit 0 and identical output.  Non-trivial: a (command, input) "
            "pair for which at least one fault point 0 < k < L was enumerated (distinct = SHA-1 of the pair; the "
            "number of such fault points is reported as class 'fault-points(0<k<L)')")
    assumptions = ("death by SIGPIPE on a closed pipe is the platform's convention, not an exit status: the closed-pipe "
                   "injection therefore runs with SIGPIPE ignored",
                   "uncompressed images only (the limit would also hit the temporary file of a .gz image)")
    exhaustive_note = "every fault offset k <= 64 (and L-1, L, L+1, 4096-multiples +-1) for each drawn (command, input)"
    min_nontrivial = {"quick": 80, "thorough": 2000}
    budget_s = {"quick": 45, "thorough": 900}

    def strategy(self, tier):
        return case_st()

    def examples(self, tier):
        return 320 if tier == "quick" else 6000

    def sample(self, case):
        c = dict(case)
        if "prog" in c:
            c["prog"] = {"dialect": c["prog"]["dialect"], "nlines": len(c["prog"]["lines"])}
        c["extra_k"] = c["extra_k"][:5]
        return c

    def judge(self, ctx, case):
        v = Verdict()
        variant = "asan" if case["seed"] % 7 == 0 else "dbg"
        with runtool.Sandbox("c11") as sb:
            if case["tool"] == "dfs":
                argv, stdin, extract = self._dfs_argv(ctx, variant, case, sb)
            else:
                argv, stdin, extract = self._basic_argv(ctx, variant, case, sb)
            # ---- fault-free reference run
            outp = os.path.join(sb.path, "stdout.ref")
            if extract:
                dest = sb.mkdir("ref-out")
                r0 = runtool.run(argv + [dest], sb.path, stdin=stdin)
                ref_files = {}
                for f in sorted(os.listdir(dest)):
                    with open(os.path.join(dest, f), "rb") as fh:
                        ref_files[f] = fh.read()
                L = max([len(b) for b in ref_files.values()] or [0])
            else:
                r0 = runtool.run(argv, sb.path, stdin=stdin, stdout_path=outp)
                L = len(r0.stdout)
                ref_files = None
            v.evaluations += 1
            if r0.status != 0 or r0.signal is not None:
                v.skipped = "reference-run-failed"
                return v
            ks = set(range(0, min(L, 64) + 1)) | {L - 1, L, L + 1}
            for m in range(4096, L + 4097, 4096):
                ks |= {m - 1, m, m + 1}
            ks |= {k % (L + 2) for k in case["extra_k"]}
            ks = sorted(k for k in ks if 0 <= k <= L + 1)
            v.classes.append("%s-%s" % (case["tool"], case["cmd"]))
            for k in ks:
                if extract:
                    dest = sb.mkdir("out-%d" % k)
                    r = runtool.run(argv + [dest], sb.path, stdin=stdin, fsize_limit=k)
                    short = False
                    for f, want in ref_files.items():
                        try:
                            with open(os.path.join(dest, f), "rb") as fh:
                                got = fh.read()
                        except OSError:
                            got = None
                        if got != want:
                            short = True
                    arrived_all = not short
                else:
                    fo = os.path.join(sb.path, "stdout.k")
                    r = runtool.run(argv, sb.path, stdin=stdin, stdout_path=fo, fsize_limit=k)
                    arrived_all = (r.stdout == r0.stdout)
                v.evaluations += 1
                if 0 < k < L:
                    v.nontrivial = True
                    v.classes.append("fault-points(0<k<L)")
                if not self._judge_one(v, r, arrived_all, k, L, case):
                    return v
            if not extract:
                # k = 0 through /dev/full as well
                r = runtool.run(argv, sb.path, stdin=stdin, stdout_path="/dev/full")
                v.evaluations += 1
                if L > 0:
                    self._judge_one(v, r, False, 0, L, case, dev="/dev/full")
                # a pipe whose reader takes k bytes and goes away, SIGPIPE ignored (writes fail with EPIPE)
                for k in sorted({0, 1, case["extra_k"][0] % (L + 1), 4096, 8192}):
                    r, cap = runtool.run_closing_pipe(argv, sb.path, stdin=stdin, read_bytes=k)
                    v.evaluations += 1
                    if L > k + cap + 4096 or (k == 0 and L > 0):
                        # more output than the reader took plus what the pipe can hold: some write was refused
                        v.classes.append("closed-pipe-fault")
                        if not self._judge_one(v, r, False, k, L, case, dev="closed pipe (EPIPE), reader took"):
                            return v
        return v

    def _judge_one(self, v, r, arrived_all, k, L, case, dev="RLIMIT_FSIZE"):
        what = "%s %s, L=%d, writes refused from byte %d (%s)" % (case["tool"], case["cmd"], L, k, dev)
        if r.timed_out or r.signal is not None:
            v.fail("C11/crash", what + ": signal/timeout", r.brief())
            return False
        if arrived_all:
            if r.status != 0 and k >= L:
                v.fail("C11/control-failed", what + ": nothing was refused but exit %s" % r.status, r.brief())
                return False
            return True
        tool = case["tool"]
        if r.status == 0:
            v.fail("C11/%s-exit0-after-failed-write" % tool, what + ": output incomplete but exit status 0",
                   r.brief())
            return False
        if not r.stderr.strip():
            v.fail("C11/%s-silent-failed-write" % tool, what + ": exit %s but nothing on stderr" % r.status, r.brief())
            return False
        return True

    # ------------------------------------------------------------------
    def _dfs_argv(self, ctx, variant, case, sb):
        dfs = ctx.tool(variant, "dfs")
        tracks = case["tracks"]
        total = tracks * 10
        ents = []
        cur = 2
        flen = case["flen"]
        n = case["nfiles"]
        names = [b"F%d" % i for i in range(n)]
        for i in range(n):
            ln = flen if i == 0 else (i * 37) % 700
            if case.get("tiny"):
                ln = (flen if flen <= 2 else 0) if i == 0 else (i * 7) % 30
            nsec = disc.sectors_of(ln)
            if cur + nsec > total:
                ln, nsec = 0, 0
            ents.append({"name": names[i], "dir": ord("$") if i % 3 else ord("A"), "locked": i % 2 == 0, "load": 0x1900,
                         "exec": 0x8023, "length": ln, "start": cur, "body": {"kind": case["kind"], "seed": case["seed"] + i}})
            cur += nsec + (i % 2)
        if case.get("endfile") and n < 31 and cur < total - 3:
            ents.append({"name": b"END", "dir": ord("$"), "locked": False, "load": 0, "exec": 0, "length": 256,
                         "start": total - 2, "body": {"kind": "rand", "seed": 9}})
        ents.sort(key=lambda e: -e["start"])
        s = {"variant": "acorn", "tracks": tracks, "spt": 10, "fill": {"kind": "rand", "seed": 3},
             "volumes": [{"label": None, "title": b"C11", "cycle": 1, "boot": 2, "total": total, "cats": [ents]}]}
        data = disc.build_surface(s)
        if case.get("img_cut") and case["cmd"] == "extract-unused":
            data = data[:max(case["img_cut"], 4) * 256]
        img = sb.file("d.ssd", data)
        f0 = ":0.A.F0"
        cmd = case["cmd"]
        base = [dfs, "--file", img]
        table = {"cat": ["cat"], "info": ["info", "#.*"], "type": ["type", f0], "type-binary": ["type", "--binary", f0],
                 "list": ["list", f0], "dump": ["dump", f0], "dump-sector": ["dump-sector", "0", "1", "3"],
                 "free": ["free"], "space": ["space"], "sector-map": ["sector-map"], "show-titles": ["show-titles"],
                 "help": ["help"], "help-cmd": ["help", "info"], "extract-files": ["extract-files"],
                 "extract-unused": ["extract-unused"]}
        if cmd == "option-help":
            return [dfs, "--help"], None, False
        return base + table[cmd], None, cmd.startswith("extract")

    def _basic_argv(self, ctx, variant, case, sb):
        tool = ctx.tool(variant, "bbcbasic_to_text")
        prog = case["prog"]
        lines = [(n, bytes(b)) for n, b in prog["lines"]] * case["repeat"]
        lines = lines[:4000]
        tgt = case.get("target_len")
        if tgt and case["cmd"] in ("listing", "listing-stdin"):
            listo = case["listo"]
            try:
                cur = len(rb.listing(prog["dialect"], listo, lines)[0])
            except rb.Reject:
                cur = None
            if cur is not None:
                while cur > tgt - 20 and lines:
                    lines.pop()
                    cur = len(rb.listing(prog["dialect"], listo, lines)[0])
                # each padding line costs 5 (number) + (1 if listo&1) + indent + 3 ("REM") + text + 1 (newline)
                indent_probe = len(rb.listing(prog["dialect"], listo, lines + [(1, b"\xF4")])[0]) - cur
                while tgt - cur > 0:
                    room = tgt - cur
                    if room < indent_probe:
                        break
                    text = min(200, room - indent_probe)
                    if 0 < room - indent_probe - text < indent_probe:
                        text = max(0, text - indent_probe)
                    lines.append((1, b"\xF4" + b"x" * text))
                    cur += indent_probe + text
        # bytes after the end-of-program marker: the tool lists the program, warns on stderr and still succeeds
        # (little-endian framing only; with the big-endian framing anything after 0D FF is an error)
        trailing = bytes(case.get("trailing") or b"") if rb.CANON[prog["dialect"]] not in rb.BIG_ENDIAN else b""
        data = rb.serialise(prog["dialect"], lines) + trailing
        p = sb.file("p.bbc", data)
        d = prog["dialect"]
        cmd = case["cmd"]
        if cmd == "listing":
            return [tool, "--dialect", d, "--listo", str(case["listo"]), p], None, False
        if cmd == "listing-stdin":
            return [tool, "--dialect", d, "--listo", str(case["listo"]), "-"], data, False
        if cmd == "two-files":
            return [tool, "--dialect", d, p, p], None, False
        if cmd == "help":
            return [tool, "--help"], None, False
        return [tool, "--dialect=help", p], None, False


CHECK = C11()
