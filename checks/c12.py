"""C12 -- dfs writes only where it was told to and never alters an image."""
import hashlib
import os
import stat

from hypothesis import strategies as st

from vlib import disc, runtool
from vlib.harness import CheckBase, Verdict

HOSTILE = [b"../../x", b"../x", b"..", b".", b"/abs", b"/", b"a/b", b"a/../b", b"//x", b"/../x", b"-rf", b"--help",
           b"x\n", b"\x01\x02", b"~", b"*", b"/etc/pw", b"....//", b"./x", b"\\..\\x", b"x/", b"/x/"]
HOSTILE_DIRS = [ord(c) for c in "/.-~$A\\*\x01\n"]


@st.composite
def case_st(draw):
    n = draw(st.integers(1, 10))
    ents = []
    seen = set()
    for i in range(n):
        nm = draw(st.one_of(st.sampled_from(HOSTILE), st.sampled_from(HOSTILE),
                            st.binary(min_size=1, max_size=7).map(lambda b: bytes((c & 0x7F) or 0x2F for c in b))))
        nm = bytes(c for c in nm[:7] if c not in (0, 0x20)) or b"/"
        d = draw(st.one_of(st.sampled_from(HOSTILE_DIRS), st.integers(1, 0x7F)))
        if d == 0x20:
            d = 0x2F
        if (d, nm) in seen:
            continue
        seen.add((d, nm))
        ents.append({"name": nm, "dir": d, "locked": draw(st.booleans()), "load": 0, "exec": 0,
                     "length": draw(st.sampled_from([0, 1, 300, 700])), "start": 0, "body": {"kind": "rand", "seed": i}})
    # lay the files out
    cur = 2
    for e in ents:
        e["start"] = cur
        cur += disc.sectors_of(e["length"]) + draw(st.integers(0, 2))
    ents.sort(key=lambda e: -e["start"])
    gap_top = draw(st.integers(0, 3))
    return {"ents": ents, "curdir": draw(st.one_of(st.sampled_from([e["dir"] for e in ents]), st.just(ord("$")))),
            "dest": draw(st.sampled_from(["dest", "dest/", "./dest", "ABS", "ABS/", "dest//", "../top/dest"])),
            # where the destination directory is and what it is called (one-character and nested names included)
            "destdir": draw(st.sampled_from(["dest", "dest", "d", "out/d", "o/dd", "x/y/z", "out/d.e", "my out", "sub/my out",
                                             "a\tb"])),
            "cmd": draw(st.sampled_from(["extract-files", "extract-files", "extract-unused", "other"])),
            "gz": draw(st.integers(0, 4)) == 0, "asan": draw(st.integers(0, 5)) == 0}


def snapshot(root):
    out = {}
    for dp, dns, fns in os.walk(root):
        for nm in dns + fns:
            p = os.path.join(dp, nm)
            rel = os.path.relpath(p, root)
            try:
                stt = os.lstat(p)
            except OSError:
                continue
            if stat.S_ISREG(stt.st_mode):
                with open(p, "rb") as fh:
                    h = hashlib.sha1(fh.read()).hexdigest()
                out[rel] = ("file", stt.st_size, h, stt.st_mode & 0o7777)
            elif stat.S_ISDIR(stt.st_mode):
                out[rel] = ("dir", 0, "", stt.st_mode & 0o7777)
            else:
                out[rel] = ("other", 0, "", stt.st_mode)
    return out


OTHER_CMDS = [["cat"], ["info", "#.*"], ["free"], ["space"], ["sector-map"], ["show-titles"], ["help"],
              ["dump-sector", "0", "0", "1"], ["type", "--binary", ":0.$.X"], ["list", "X"], ["dump", "X"]]


class C12(CheckBase):
    pid = "C12"
    level = "exploration"
    variants = ("dbg", "asan")
    rule = ("generated catalogues whose 7 name bytes and directory byte range over 0x01-0x7F with a bias to '/', '.', "
            "'..', leading '-', control characters and names such as ../../x, /abs, a/b; every command; destination "
            "given relative/absolute, with/without trailing slash, the directory itself called dest, d, out/d, o/dd, "
            "x/y/z, out/d.e, 'my out', 'sub/my out' or a<TAB>b; sandbox case/top/{img,<destination>,sibling}+canaries.  "
            "Oracle: snapshot (path, type, size, SHA-1, mode) of the whole sandbox before and after: image bytes "
            "identical; non-extract commands change nothing; extract commands only create regular files directly "
            "inside dest/.  Exit status is free.  Non-trivial: a name or directory byte that is '/' or a name that is "
            "'.' or '..' after DFS qualification")
    assumptions = ("exit status not judged: refusing a hostile name is fine",)
    min_nontrivial = {"quick": 100, "thorough": 1000}
    budget_s = {"quick": 30, "thorough": 600}

    def strategy(self, tier):
        return case_st()

    def examples(self, tier):
        return 6000 if tier == "quick" else 60000

    def sample(self, case):
        return {"names": [[chr(e["dir"]), e["name"]] for e in case["ents"]], "curdir": chr(case["curdir"]),
                "dest": case["dest"], "cmd": case["cmd"]}

    def judge(self, ctx, case):
        v = Verdict()
        dfs = ctx.tool("asan" if case.get("asan") else "dbg", "dfs")
        surf = {"variant": "acorn", "tracks": 40, "spt": 10, "fill": {"kind": "rand", "seed": 1},
                "volumes": [{"label": None, "title": b"HOSTILE", "cycle": 0, "boot": 0, "total": 400,
                             "cats": [case["ents"]]}]}
        data = disc.build_surface(surf)
        hostile = False
        for e in case["ents"]:
            full = (b"" if e["dir"] == case["curdir"] else bytes([e["dir"]]) + b".") + e["name"]
            if b"/" in full or full in (b".", b".."):
                hostile = True
        if hostile:
            v.nontrivial = True
            v.classes.append("hostile-name")
        v.classes.append(case["cmd"])
        with runtool.Sandbox("c12") as sb:
            top = sb.mkdir("case/top")
            os.makedirs(os.path.join(top, "img"))
            dd = case.get("destdir", "dest")
            os.makedirs(os.path.join(top, dd))
            os.makedirs(os.path.join(top, "sibling"))
            name = "disc.ssd"
            if case["gz"]:
                import gzip
                data_w = gzip.compress(data, 1, mtime=0)
                name = "disc.ssd.gz"
            else:
                data_w = data
            img = os.path.join(top, "img", name)
            with open(img, "wb") as fh:
                fh.write(data_w)
            # (the canary inside dest/ has a name no DFS file can have -- longer than dir + '.' + 7 characters --
            # because overwriting a file of the same name inside the destination is legitimate)
            for c in ("canary", "sibling/canary", dd + "/canary-in-destination", "../canary-up") + (
                    (os.path.dirname(dd) + "/canary-beside-destination",) if "/" in dd else ()):
                with open(os.path.join(top, c), "wb") as fh:
                    fh.write(b"canary " + c.encode())
            dest = case["dest"].replace("dest", dd).replace("ABS", os.path.join(top, dd))
            root = os.path.join(sb.path, "case")
            before = snapshot(root)
            if case["cmd"] == "other":
                cmds = OTHER_CMDS
            else:
                cmds = [[case["cmd"], dest]]
            for cmd in cmds:
                argv = [dfs, "--file", os.path.join("img", name), "--dir", chr(case["curdir"])] + cmd
                r = runtool.run(argv, top)
                v.evaluations += 1
                if r.signal is not None or r.timed_out:
                    v.fail("C12/crash", "%s: signal/timeout" % cmd[0], r.brief())
                after = snapshot(root)
                changed = sorted(k for k in set(before) | set(after) if before.get(k) != after.get(k))
                img_rel = os.path.relpath(img, root)
                if before.get(img_rel) != after.get(img_rel):
                    v.fail("C12/image-altered", "%s changed the image file" % cmd[0], r.brief())
                if cmd[0] not in ("extract-files", "extract-unused"):
                    if changed:
                        v.fail("C12/non-extract-wrote", "%s created or changed %s" % (cmd[0], changed[:5]), r.brief())
                else:
                    bad = []
                    for k in changed:
                        ok = (os.path.dirname(k) == "top/" + dd and after.get(k, ("",))[0] == "file"
                              and k != "top/" + dd + "/canary-in-destination")
                        if not ok:
                            bad.append(k)
                    if bad:
                        v.fail("C12/escape", "%s %s wrote outside the destination directory: %s"
                               % (cmd[0], dest, bad[:5]), {"run": r.brief(), "names": self.sample(case)["names"]})
                before = after
        return v


CHECK = C12()
