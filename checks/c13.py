"""C13 -- file-system variant and geometry are identified from the on-disc markers only."""
import re

from hypothesis import strategies as st

from vlib import containers, disc, gen, runtool
from vlib.harness import CheckBase, Verdict

CHARS = gen.PLAIN_CHARS
FORMAT_NAME = {"acorn": "Acorn DFS", "watford": "Watford DFS", "opus": "Opus DDOS", "hdfs": "HDFS"}


def _ent(name, start, length, seed, d=ord("$")):
    return {"name": name, "dir": d, "locked": False, "load": 0x1900, "exec": 0x8023, "length": length,
            "start": start, "body": {"kind": "rand", "seed": seed}}


@st.composite
def case_st(draw):
    variant = draw(st.sampled_from(["acorn", "acorn", "watford", "watford", "opus", "hdfs"]))
    if variant == "opus":
        s = draw(gen.surface(variants=("opus",), chars=CHARS, big_ok=False))
    else:
        dd = draw(st.booleans())
        tracks = draw(st.sampled_from([40, 80, 35]))
        spt = 18 if dd else 10
        nsec = tracks * spt
        # 80 x 18 = 1440 sectors needs bit 10 of the count (bit 2 of byte 0x106, "large disc"), which the geometry
        # prober honours; the 10-bit values are the other possibility for such a disc
        # (Watford DDFS only: the Acorn catalogue validation works with the 10-bit count)
        total = nsec if nsec <= 1023 else draw(st.sampled_from([nsec, nsec, 1023, 800, 721] if variant == "watford"
                                                                else [1023, 800, 721]))
        lo = 4 if variant == "watford" else 2
        first = []
        cursor = lo
        # a file that starts right after the catalogue (sector 2 on Acorn/HDFS) and reaches sector 16
        if draw(st.integers(0, 3)) > 0:
            n0 = draw(st.sampled_from([1, 3, 15, 16, 20]))
            first.append(_ent(b"LOW", lo, n0 * 256 - draw(st.sampled_from([0, 1, 100])), 1))
            cursor = lo + n0
        special = []
        if variant == "watford" and total > 0x110 and draw(st.integers(0, 2)) > 0:
            # a first-catalogue file whose start sector has low byte 2
            st_sec = draw(st.sampled_from([s_ for s_ in (0x102, 0x202, 0x302) if s_ + 3 < total]))
            special.append(_ent(b"AT102", st_sec, 600, 2))
        hi = special[0]["start"] if special else min(total, 1023)       # start sectors are 10 bits
        # up to a completely full catalogue (slot 31 is then the file that starts right after the catalogue)
        room = 31 - len(first) - len(special)
        mid = draw(gen.entries_for(cursor, hi, room if variant != "watford" else min(room, 28), CHARS, None, True, False))
        ents = sorted(first + mid + special, key=lambda e: -e["start"])
        vol = {"label": None, "title": draw(gen.title_st()), "cycle": draw(st.integers(0, 255)),
               "boot": draw(st.integers(0, 3)), "total": total}
        if variant == "hdfs":
            vol["title"] = bytes(b & 0x7F for b in vol["title"])
        if variant == "watford":
            above = []
            if special:
                # everything above the special file goes to the second catalogue
                top = draw(gen.entries_for(special[0]["start"] + 3, min(total, 1023), 20, [ord(c) for c in "QRSTUVWXYZ"], [ord("W")],
                                           True, False))
                above = top
            k = draw(st.integers(0, len(ents))) if not special else 0
            k = min(k, 31)
            second = above + ents[:k]
            firstcat = ents[k:]
            if len(firstcat) > 31:
                firstcat = firstcat[:31]
            second = sorted(second, key=lambda e: -e["start"])[:31]
            vol["cats"] = [firstcat, second]
        else:
            vol["cats"] = [ents[:31]]
        s = {"variant": variant, "tracks": tracks, "spt": spt, "fill": {"kind": "rand", "seed": draw(st.integers(0, 99))},
             "volumes": [vol]}
    two = variant != "opus" and draw(st.integers(0, 3)) == 0
    if two and draw(st.integers(0, 2)) == 0:
        two = "blank"            # the second side of the interleaved image carries no catalogue at all
    return {"surface": s, "two_sided": two, "seedB": draw(st.integers(0, 10 ** 6)),
            # what the OTHER side of a two-sided image is: each side is identified from its own sectors
            "other_variant": draw(st.sampled_from(["acorn", "acorn-aa", "watford", "watford"])),
            "fake": draw(st.sampled_from(["bad-total", "bad-total-small", "no-volumes", "track-beyond", "spt-ok-only",
                                           "catalogue16", "catalogue16"]))}


def imitation(case, imgA):
    """Second body assignment: same catalogue, marker-imitating file bodies."""
    s = case["surface"]
    spt, tracks = s["spt"], s["tracks"]
    img = bytearray(imgA)
    placed = []
    filler = disc.expand({"kind": "rand", "seed": case["seedB"]}, len(img))
    fake16 = bytearray(256)
    kind = case["fake"]
    tot = {"bad-total": 0x1234, "bad-total-small": 400, "no-volumes": 720, "track-beyond": 1440, "spt-ok-only": 0,
           "catalogue16": 0}[kind]
    fake16[0] = 0x20
    fake16[1], fake16[2], fake16[3], fake16[4] = (tot >> 8) & 0xFF, tot & 0xFF, 18, 80
    if kind in ("bad-total", "bad-total-small", "spt-ok-only"):
        fake16[8] = 1
    elif kind == "track-beyond":
        fake16[8] = 200
    catlike0, catlike1 = disc.encode_catalog_pair(b"FAKESIDE", 7, 0, min(tracks * spt, 1023),
                                                   [_ent(b"GHOST", 2, 300, 5)])
    side2 = {spt: catlike0, spt + 1: catlike1, tracks * spt // 2: catlike0, tracks * spt // 2 + 1: catlike1}
    for vol in s["volumes"]:
        origin = disc.volume_origin(s, vol)
        for e in disc.all_entries(vol):
            n = disc.sectors_of(e["length"])
            for k in range(n):
                sct = origin + e["start"] + k
                if sct * 256 + 256 > len(img):
                    continue
                if sct == 2:
                    new = b"\xAA" * 8 + b"FAKE   $" * 31
                    placed.append("aa@2")
                elif sct in (16, 17) and kind == "catalogue16":
                    # what the second side's catalogue of a 16-sectors-per-track interleaved image would look like
                    new = catlike0 if sct == 16 else catlike1
                    placed.append("catalogue@%d" % sct)
                elif sct == 16:
                    new = bytes(fake16)
                    placed.append("opus16:" + kind)
                elif sct in side2:
                    new = side2[sct]
                    placed.append("catalogue@%d" % sct)
                else:
                    new = filler[sct * 256:sct * 256 + 256]
                img[sct * 256:sct * 256 + 256] = new
    return bytes(img), placed


class C13(CheckBase):
    pid = "C13"
    level = "exploration"
    variants = ("dbg", "asan")
    rule = ("generated well-formed discs of each variant (Acorn with a file starting in sector 2 and reaching sector "
            "16, Watford incl. first-catalogue files at 0x102/0x202/0x302, Opus 1-8 volumes, HDFS-flagged) x "
            "35/40/80 tracks x single/double density x ssd/sdd/dsd/ddd (the other side of a two-sided image being an "
            "Acorn disc, an Acorn disc whose sector-2 file starts with the Watford bytes, or a Watford disc, "
            "identified on its own), each with TWO body assignments for the same "
            "catalogue: random, and marker-imitating (8 x 0xAA + catalogue-like data at sector 2, an incomplete Opus "
            "volume table at sector 16, valid-looking catalogues at the side-2 offsets) inside file bodies only. "
            "Oracle: (i) the identified format (from --verbose), 62 vs 31 catalogue slots, lettered volumes iff "
            "Opus, geometry >= catalogue total; (ii) metamorphic: cat / info / free / show-titles / geometry are "
            "identical for both assignments.  Non-trivial: the imitating assignment actually placed marker bytes "
            "in sector 2, sector 16 or a side-2 offset")
    assumptions = ("a COMPLETE forged Opus table (spt 18, total in {630,720,1440} <= image size, >= 1 volume with a "
                   "start track inside the disc) is excluded by the generator's own definition, as the property says",
                   "imitations are written inside file extents only; free space is not touched",
                   "HDFS: single-sided flag only")
    min_nontrivial = {"quick": 100, "thorough": 1000}
    budget_s = {"quick": 35, "thorough": 900}

    def strategy(self, tier):
        return case_st()

    def examples(self, tier):
        return 1200 if tier == "quick" else 30000

    def sample(self, case):
        s = case["surface"]
        return {"variant": s["variant"], "geom": [s["tracks"], s["spt"]], "two_sided": case["two_sided"],
                "fake": case["fake"],
                "files": [["%s@%X+%X" % (e["name"].decode("latin-1"), e["start"], e["length"]) for e in c][:6]
                          for v in s["volumes"] for c in v["cats"]][:4]}

    def judge(self, ctx, case):
        v = Verdict()
        dfs = ctx.tool("asan" if case["seedB"] % 6 == 0 else "dbg", "dfs")
        s = case["surface"]
        variant = s["variant"]
        imgA = disc.build_surface(s)
        imgB, placed = imitation(case, imgA)
        spt, tracks = s["spt"], s["tracks"]
        if placed:
            v.nontrivial = True
        v.classes.extend(sorted(set(p.split(":")[0].split("@")[0] for p in placed)))
        v.classes.append("variant-" + variant)
        if any(len(c) == 31 for vol in s["volumes"] for c in vol["cats"]):
            v.classes.append("full-catalogue-fragment")
        dd = spt != 10
        if case["two_sided"]:
            ov = case.get("other_variant", "acorn")
            tot1 = min(s["volumes"][0]["total"], 1023)
            if ov.startswith("watford"):
                other = {"variant": "watford", "tracks": tracks, "spt": spt, "fill": {"kind": "rand", "seed": 9},
                         "volumes": [{"label": None, "title": b"SIDE1W", "cycle": 3, "boot": 0, "total": tot1,
                                      "cats": [[_ent(b"S1", 4, 700, 4)], [_ent(b"W2", 10, 300, 5)]]}]}
            else:
                e1 = _ent(b"S1", 2, 700, 4)
                if ov == "acorn-aa":
                    e1["body"] = {"kind": "aa", "seed": 1}       # starts with the Watford recognition bytes
                other = {"variant": "acorn", "tracks": tracks, "spt": spt, "fill": {"kind": "rand", "seed": 9},
                         "volumes": [{"label": None, "title": b"SIDE1", "cycle": 3, "boot": 0, "total": tot1,
                                      "cats": [[e1]]}]}
            o = disc.build_surface(other)
            if case["two_sided"] == "blank":
                o = bytearray(disc.expand({"kind": "rand", "seed": 77}, len(o)))
                o[256 + 5] = 0xFF          # not a multiple of 8: certainly not a catalogue
                o = bytes(o)
                v.classes.append("two-sided-blank-side-1")
            fileA = containers.interleaved(imgA, o, spt)
            fileB = containers.interleaved(imgB, o, spt)
            ext = "ddd" if dd else "dsd"
        else:
            fileA, fileB = imgA, imgB
            ext = "sdd" if dd else "ssd"
        outs = []
        with runtool.Sandbox("c13") as sb:
            for tag, data in (("A", fileA), ("B", fileB)):
                img = sb.file("disc%s/disc.%s" % (tag, ext), data)
                res = {}
                first = "0" + (s["volumes"][0]["label"] or "")
                r = runtool.run([dfs, "--verbose", "--show-config", "--file", img, "free", first], sb.path)
                v.evaluations += 1
                if r.signal is not None or r.timed_out:
                    v.fail("C13/crash", "signal/timeout on body assignment %s" % tag, r.brief())
                    return v
                fmts = set(re.findall(rb"File system format appears to be ([A-Za-z ]+?) occupying", r.stderr))
                want = FORMAT_NAME[variant].encode()
                if case["two_sided"]:
                    # --verbose does not say which side a message is about: side 1 is an Acorn disc, or blank
                    # (random bytes, which the HDFS flag test may even take for HDFS) -- only side 0 is judged
                    fmts = {want} if want in fmts else fmts
                if r.status != 0 or want not in fmts or (fmts - {want}):
                    key = "C13/misidentified"
                    v.fail(key, "%s disc (assignment %s) identified as %s (exit %s)"
                           % (variant, tag, sorted(fmts), r.status), r.brief())
                    return v
                m = re.findall(rb"^(\d+) Files", r.stdout, re.M)
                slots = sum(int(x) for x in m) if len(m) == 2 else None
                if slots != (62 if variant == "watford" else 31):
                    v.fail("C13/slots", "free shows %s catalogue slots on a %s disc" % (slots, variant), r.brief())
                g = re.search(rb"^Drive +0: occupied, (.*)$", r.stderr, re.M)
                gm = re.search(rb"(\d+) sides?, (\d+) tracks, (\d+) sectors per track", g.group(1) if g else b"")
                if not gm:
                    v.fail("C13/show-config-parse", "cannot find the geometry of drive 0 in --show-config", r.brief())
                    return v
                res["geometry"] = gm.group(0)
                h_, t_, s_ = int(gm.group(1)), int(gm.group(2)), int(gm.group(3))
                need = s["volumes"][0]["total"] if variant != "opus" else tracks * spt
                if t_ * s_ < need:
                    v.fail("C13/geometry-too-small", "geometry %r cannot hold %d sectors" % (res["geometry"], need),
                           r.brief())
                dens = b"double density" if dd else b"single density"
                if dens not in g.group(1):
                    v.fail("C13/density", "density not %r" % dens, r.brief())
                res["free"] = r.stdout
                for name, args in (("cat", ["cat", first]), ("info", ["--drive", first, "info", "#.*"]),
                                   ("titles", ["show-titles", "0"])):
                    pre = [a for a in args if a.startswith("--drive") or a == first and args[0] == "--drive"]
                    if args[0] == "--drive":
                        argv = [dfs, "--file", img] + args
                    else:
                        argv = [dfs, "--file", img] + args
                    rr = runtool.run(argv, sb.path)
                    v.evaluations += 1
                    res[name] = (rr.status, rr.signal, rr.stdout)
                    if rr.signal is not None or rr.status != 0:
                        v.fail("C13/command-failed", "%s failed on assignment %s" % (name, tag), rr.brief())
                if case["two_sided"] and case["two_sided"] != "blank":
                    # the other side is identified on its own: slot count and file count of drive 2
                    wat1 = case.get("other_variant", "acorn").startswith("watford")
                    r2 = runtool.run([dfs, "--file", img, "free", "2"], sb.path)
                    i2 = runtool.run([dfs, "--file", img, "info", ":2.#.*"], sb.path)
                    v.evaluations += 2
                    m2 = re.findall(rb"^(\d+) Files", r2.stdout, re.M)
                    slots2 = sum(int(x) for x in m2) if len(m2) == 2 else None
                    nfiles2 = len([ln for ln in i2.stdout.split(b"\n") if ln.strip()])
                    if r2.status != 0 or i2.status != 0 or slots2 != (62 if wat1 else 31) or nfiles2 != (2 if wat1 else 1):
                        v.fail("C13/other-side-misidentified", "side 1 is a %s disc with %d file(s) but drive 2 shows %s "
                               "catalogue slots and %d files (side 0 is %s)"
                               % ("Watford" if wat1 else "Acorn", 2 if wat1 else 1, slots2, nfiles2, variant),
                               {"free": r2.brief(), "info": i2.brief()})
                    v.classes.append("other-side-" + case.get("other_variant", "acorn"))
                lettered = bool(re.search(rb"^0[A-H]: ", res["titles"][2], re.M))
                if lettered != (variant == "opus"):
                    v.fail("C13/volumes", "show-titles lists lettered volumes: %s on a %s disc" % (lettered, variant),
                           {"stdout": res["titles"][2][:200]})
                outs.append(res)
        if len(outs) == 2 and outs[0] != outs[1]:
            diff = [k for k in outs[0] if outs[0][k] != outs[1][k]]
            key = "C13/bodies-change-identification"
            ga, gb = outs[0].get("geometry", b""), outs[1].get("geometry", b"")
            if (case["two_sided"] == "blank" and dd and ga != gb
                    and sorted([b"16 sectors per track" in ga, b"16 sectors per track" in gb]) == [False, True]):
                # known finding: with a blank second side, file data in sectors 16-17 of side 0 that passes for a
                # catalogue (placed on purpose by the `catalogue16` imitation, or by chance: an imitated Opus table in
                # sector 16 followed by suitable random bytes) is taken for the second side's catalogue of a
                # 16-sectors-per-track layout.  The class is recognised by its effect: one body assignment gives
                # N x 18, the other N x 16 sectors per track.
                key = "C13/side0-body-at-16-taken-for-side1-catalogue"
            v.fail(key,
                   "output of %s changed when only file bodies changed (%s)" % (diff, placed[:4]),
                   {"A": {k: outs[0][k] for k in diff}, "B": {k: outs[1][k] for k in diff}})
        return v


CHECK = C13()
