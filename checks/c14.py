"""C14 -- free, space, sector-map, extract-unused agree with the catalogue and each other."""
import os
import re

from hypothesis import strategies as st

from vlib import disc, gen, runtool
from vlib.harness import CheckBase, Verdict

CHARS = [c for c in gen.PLAIN_CHARS if c != ord("/")]


@st.composite
def case_st(draw):
    s = draw(gen.surface(chars=CHARS, big_ok=draw(st.integers(0, 3)) == 0))
    if draw(st.integers(0, 4)) == 0:
        # make the top file end exactly at the last sector of its volume
        for vol in s["volumes"]:
            top = [e for e in disc.all_entries(vol) if e["length"]]
            if top:
                e = max(top, key=lambda x: x["start"])
                nsec = vol["total"] - e["start"]
                if 0 < nsec <= 1023:
                    e["length"] = min(0x3FFFF, nsec * 256 - draw(st.sampled_from([0, 1, 255])))
    ext = "sdd" if s["spt"] != 10 else "ssd"
    return {"ext": ext, "surface": s, "asan": draw(st.integers(0, 5)) == 0}


def volume_model(surface, vi):
    """owner map of one volume: list over volume-relative sectors [0,total) -> label or None."""
    vol = surface["volumes"][vi]
    total = vol["total"]
    variant = surface["variant"]
    catsec = {"acorn": 2, "watford": 4, "opus": 0, "hdfs": 2}[variant]
    owner = [None] * total
    for i in range(min(catsec, total)):
        owner[i] = "catalog"
    for e in disc.all_entries(vol):
        n = disc.sectors_of(e["length"])
        for sct in range(e["start"], e["start"] + n):
            if sct < total:
                owner[sct] = chr(e["dir"]) + "." + e["name"].decode("latin-1")
    return owner, catsec


def runs_of_none(owner, lo=0):
    out = []
    i = lo
    n = len(owner)
    while i < n:
        if owner[i] is None:
            j = i
            while j < n and owner[j] is None:
                j += 1
            out.append((i, j - i))
            i = j
        else:
            i += 1
    return out


class C14(CheckBase):
    pid = "C14"
    level = "exploration"
    variants = ("dbg", "asan")
    rule = ("generated non-overlapping layouts (layout-first): 0..31/62 files, zero-length files anywhere (next to "
            "a file, on top, in a gap), gaps of any size incl. 1, file ending at the last sector, either or both "
            "Watford halves empty, 1-8 Opus volumes, all geometries; free / space / sector-map / extract-unused "
            "compared with extent arithmetic done on the layout (not on the catalogue bytes) and cross-checked "
            "against each other.  Non-trivial: a layout with a zero-length file, or >= 2 gaps, or a Watford disc "
            "with one empty half, or an Opus volume other than A")
    assumptions = ("catalogue total-sectors field <= 1023",
                   "where the statement is silent both answers are accepted and counted as ambiguous: `free` used "
                   "sectors of an Opus volume without files (0 or 2); a zero-length file recorded above every "
                   "other file (its start sector may or may not count as the end of the used area)")
    min_nontrivial = {"quick": 100, "thorough": 1000}
    budget_s = {"quick": 40, "thorough": 900}

    def strategy(self, tier):
        return case_st()

    def examples(self, tier):
        return 1500 if tier == "quick" else 40000

    def sample(self, case):
        s = case["surface"]
        return {"variant": s["variant"], "geom": [s["tracks"], s["spt"]],
                "volumes": [{"label": v["label"], "total": v["total"],
                             "cats": [["%s.%s@%X+%X" % (chr(e["dir"]), e["name"].decode("latin-1"), e["start"],
                                                        e["length"]) for e in c][:6] for c in v["cats"]]}
                            for v in s["volumes"]]}

    def judge(self, ctx, case):
        v = Verdict()
        dfs = ctx.tool("asan" if case.get("asan") else "dbg", "dfs")
        s = case["surface"]
        data = disc.build_surface(s)
        variant = s["variant"]
        maxfiles = 62 if variant == "watford" else 31
        with runtool.Sandbox("c14") as sb:
            img = sb.file("disc." + case["ext"], data)
            gaps_total_all = 0
            for vi, vol in enumerate(s["volumes"]):
                vsel = "0" + (vol["label"] or "")
                ents = disc.all_entries(vol)
                owner, catsec = volume_model(s, vi)
                total = vol["total"]
                self._classify(v, s, vi, vol, ents)
                # ------------------------------------------------ free
                r = runtool.run([dfs, "--file", img, "free", vsel], sb.path)
                v.evaluations += 1
                if self._bad(v, r, "free " + vsel):
                    continue
                m = re.findall(rb"^(\d+) Files ([0-9A-F]+) Sectors +([\d,]+) Bytes (Free|Used)$", r.stdout, re.M)
                if len(m) != 2 or m[0][3] != b"Free" or m[1][3] != b"Used":
                    v.fail("C14/free-parse", "cannot parse free output", r.brief())
                    continue
                ffree, sfree, bfree = int(m[0][0]), int(m[0][1], 16), int(m[0][2].replace(b",", b""))
                fused, sused, bused = int(m[1][0]), int(m[1][1], 16), int(m[1][2].replace(b",", b""))
                if fused != len(ents) or fused + ffree != maxfiles:
                    v.fail("C14/free-files", "free reports %d used + %d free files; catalogue has %d of %d"
                           % (fused, ffree, len(ents), maxfiles), r.brief())
                if sused + sfree != total:
                    v.fail("C14/free-sum", "used %X + free %X sectors != catalogue total %X" % (sused, sfree, total),
                           r.brief())
                real_end = max([e["start"] + disc.sectors_of(e["length"]) for e in ents if e["length"]] or [0])
                zero_top = max([e["start"] for e in ents if not e["length"]] or [0])
                base = catsec if variant != "opus" else 0
                allowed = {max(real_end, base)}
                if zero_top > max(real_end, base):
                    allowed.add(zero_top)
                    v.classes.append("ambiguous-zero-length-on-top")
                if variant == "opus" and real_end < 2:
                    allowed |= {max(real_end, 2)}
                    if zero_top > 2:
                        allowed.add(zero_top)
                    v.classes.append("ambiguous-opus-empty-volume")
                if sused not in allowed:
                    v.fail("C14/free-used", "free says %X sectors used; one past the highest occupied sector is %s"
                           % (sused, sorted(allowed)), r.brief())
                if bused != sused * 256 or bfree != sfree * 256:
                    v.fail("C14/free-bytes", "byte counts are not sectors*256", r.brief())
                # ------------------------------------------------ space
                r = runtool.run([dfs, "--file", img, "space", vsel], sb.path)
                v.evaluations += 1
                if self._bad(v, r, "space " + vsel):
                    continue
                lines = r.stdout.split(b"\n")
                if not lines[0].startswith(b"Gap sizes on disc " + vsel.encode()):
                    v.fail("C14/space-parse", "unexpected first line of space output", r.brief())
                    continue
                try:
                    gaps = sorted(int(t, 16) for t in lines[1].split())
                    mt = re.search(rb"Total space free = ([0-9A-F]+) sectors", r.stdout)
                    tot = int(mt.group(1), 16)
                except (ValueError, AttributeError, IndexError):
                    v.fail("C14/space-parse", "cannot parse space output", r.brief())
                    continue
                want_runs = runs_of_none(owner, 0)
                want = sorted(n for _, n in want_runs)
                file_secs = sum(disc.sectors_of(e["length"]) for e in ents)
                if gaps != want:
                    v.fail("C14/space-gaps", "space lists gaps %s, the layout has %s (volume %s)"
                           % (["%X" % g for g in gaps], ["%X" % g for g in want], vsel), r.brief())
                elif tot != sum(want) or tot != total - catsec - file_secs:
                    v.fail("C14/space-total", "space total %X != %X" % (tot, total - catsec - file_secs), r.brief())
                gaps_total_all += sum(want)
            # ---------------------------------------------------- sector-map (whole surface)
            surf_owner = self._surface_model(s)
            r = runtool.run([dfs, "--file", img, "sector-map", "0"], sb.path)
            v.evaluations += 1
            if not self._bad(v, r, "sector-map"):
                got = {}
                ok = True
                for ln in r.stdout.split(b"\n")[2:]:
                    if not ln.strip():
                        continue
                    m = re.match(rb"^(\d+): (.*)$", ln)
                    if not m:
                        v.fail("C14/map-parse", "cannot parse sector-map line", {"line": ln})
                        ok = False
                        break
                    base = int(m.group(1))
                    for i, name in enumerate(m.group(2).split()):
                        got[base + i] = name.decode("latin-1")
                if ok:
                    want_map = {i: (o if o is not None else "-") for i, o in enumerate(surf_owner)}
                    if got != want_map:
                        diff = [(k, got.get(k), want_map.get(k)) for k in sorted(set(got) | set(want_map))
                                if got.get(k) != want_map.get(k)][:8]
                        v.fail("C14/map-labels", "sector-map differs from the layout at (sector, shown, owner): %s" % diff,
                               {"stdout": r.stdout[:500]})
            # ---------------------------------------------------- extract-unused
            dest = sb.mkdir("unused")
            r = runtool.run([dfs, "--file", img, "extract-unused", dest], sb.path)
            v.evaluations += 1
            if not self._bad(v, r, "extract-unused"):
                want_files = {}
                for start, n in runs_of_none(surf_owner, 0):
                    want_files["unused_%03X.bin" % start] = data[start * 256:(start + n) * 256]
                got_files = {}
                for f in os.listdir(dest):
                    with open(os.path.join(dest, f), "rb") as fh:
                        got_files[f] = fh.read()
                if set(got_files) != set(want_files):
                    v.fail("C14/unused-set", "extract-unused wrote %s, unowned runs are %s"
                           % (sorted(got_files)[:10], sorted(want_files)[:10]), r.brief())
                else:
                    for f in want_files:
                        if got_files[f] != want_files[f]:
                            v.fail("C14/unused-content", "content/size of %s differs (%d vs %d bytes)"
                                   % (f, len(got_files[f]), len(want_files[f])), r.brief())
                            break
                m = re.match(rb"^(\d+) files were written", r.stdout)
                if not m or int(m.group(1)) != len(want_files):
                    v.fail("C14/unused-count", "reported count differs from %d" % len(want_files), r.brief())
        return v

    def _surface_model(self, s):
        """Owner of every sector of the surface, as sector-map is documented to label it."""
        variant = s["variant"]
        if variant != "opus":
            owner, _ = volume_model(s, 0)
            return owner
        nsec = s["tracks"] * s["spt"]
        owner = [None] * nsec
        for vi, vol in enumerate(s["volumes"]):
            lab = vol["label"]
            ci = 2 * "ABCDEFGH".index(lab)
            owner[ci] = "*CAT:0" + lab
            owner[ci + 1] = "*CAT:0" + lab
            origin = vol["start_track"] * s["spt"]
            for e in disc.all_entries(vol):
                for sct in range(e["start"], e["start"] + disc.sectors_of(e["length"])):
                    if origin + sct < nsec:
                        # with a single volume the volume prefix is redundant and not shown
                        pre = ":%s." % lab if len(s["volumes"]) > 1 else ""
                        owner[origin + sct] = "%s%s.%s" % (pre, chr(e["dir"]), e["name"].decode("latin-1"))
        owner[16] = "disc-cat"
        owner[17] = "reserved"
        return owner

    def _bad(self, v, r, label):
        if r.timed_out or r.signal is not None or r.status != 0:
            key = "C14/exit"
            if b"out of order" in r.stderr:
                key = "C14/space-out-of-order"
            if r.signal is not None:
                key = "C14/crash"
            v.fail(key, "%s: exit %s signal %s" % (label, r.status, r.signal), r.brief())
            return True
        return False

    def _classify(self, v, s, vi, vol, ents):
        cl = []
        if any(e["length"] == 0 for e in ents):
            cl.append("zero-length-file")
        owner, catsec = volume_model(s, vi)
        ng = len(runs_of_none(owner))
        if ng >= 2:
            cl.append("gaps>=2")
        if any(n == 1 for _, n in runs_of_none(owner)):
            cl.append("gap-of-1")
        if s["variant"] == "watford":
            a, b = len(vol["cats"][0]), len(vol["cats"][1]) if len(vol["cats"]) > 1 else 0
            if a == 0 and b == 0:
                cl.append("watford-both-empty")
            elif a == 0:
                cl.append("watford-first-empty")
            elif b == 0:
                cl.append("watford-second-empty")
            else:
                cl.append("watford-both-nonempty")
        if vi > 0:
            cl.append("opus-volume-not-A")
        if not ents:
            cl.append("no-files")
        if any(e["length"] and e["start"] + disc.sectors_of(e["length"]) == vol["total"] for e in ents):
            cl.append("file-ends-at-last-sector")
        v.classes.extend(cl)
        if any(c in cl for c in ("zero-length-file", "gaps>=2", "watford-first-empty", "watford-second-empty",
                                 "opus-volume-not-A")):
            v.nontrivial = True


CHECK = C14()
