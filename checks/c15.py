"""C15 -- wildcards and file names select exactly the files DFS semantics say."""
import functools
import re

from hypothesis import strategies as st

from vlib import disc, gen, parse, runtool
from vlib.harness import CheckBase, Verdict

CHARS = [c for c in gen.DFS_CHARS if c != ord("/")]
META = [c for c in gen.REGEX_META if c in CHARS]


# ---------------------------------------------------------------- reference (doc/dfs.1 "DFS WILDCARDS", "DFS FILE NAMES")

def split_spec(spec):
    """-> (drive or None, vol letter or None, dir pattern or None, name pattern) or None if malformed."""
    drive = vol = None
    rest = spec
    if rest.startswith(":"):
        m = re.match(r"^:([0-9]+)([A-H]?)\.", rest)
        if not m:
            return None
        drive = int(m.group(1))
        vol = m.group(2) or None
        rest = rest[m.end():]
    d = None
    if len(rest) >= 2 and rest[1] == "." and rest[0] != ".":
        d = rest[0]
        rest = rest[2:]
    if not rest or "." in rest:
        return None
    return drive, vol, d, rest


def ch_eq(p, c):
    if p.isalpha() and p.isascii():
        return p.lower() == c.lower()
    return p == c


@functools.lru_cache(maxsize=100000)
def wild_match(pat, text):
    """(memoised: a pattern with many '*' would otherwise cost 8^stars steps)
    '#' one character, '*' any run (neither matches '.'), letters fold case, others literal."""
    if not pat:
        return not text
    p = pat[0]
    if p == "*":
        return any(wild_match(pat[1:], text[i:]) for i in range(len(text) + 1) if "." not in text[:i])
    if not text:
        return False
    if p == "#":
        return text[0] != "." and wild_match(pat[1:], text[1:])
    return ch_eq(p, text[0]) and wild_match(pat[1:], text[1:])


def ref_select(spec, cur_drive, cur_vol, cur_dir, catalogs):
    """catalogs: {(drive, vol or None): [(dir_chr, name_str), ...]} -> (key, [indices]) or None if malformed."""
    sp = split_spec(spec)
    if sp is None:
        return None
    drive, vol, d, name = sp
    if drive is None:
        drive, vol = cur_drive, cur_vol
    dpat = d if d is not None else cur_dir
    key = (drive, vol)
    return key, dpat, name


def is_wild(s):
    return "#" in s or "*" in s


# ---------------------------------------------------------------- generator

@st.composite
def case_st(draw):
    opus = draw(st.integers(0, 3)) == 0
    nsurf = 1 if opus else draw(st.sampled_from([1, 2]))
    surfaces = []
    usechars = draw(st.sampled_from([CHARS, CHARS, META + [ord("A"), ord("b"), ord("1")],
                                     [ord(c) for c in "AaBbZz19^$"]]))
    for i in range(nsurf):
        s = draw(gen.surface(variants=("opus",) if opus else ("acorn", "watford"),
                             geoms=[(40, 10)] if not opus else None, chars=usechars, dirs=usechars, big_ok=False))
        surfaces.append(s)
    # collect names
    allnames = []
    for si, s in enumerate(surfaces):
        for vol in s["volumes"]:
            for e in disc.all_entries(vol):
                allnames.append((si, vol["label"], chr(e["dir"]), e["name"].decode("latin-1")))
    pats = []
    npat = draw(st.integers(3, 8))
    for _ in range(npat):
        if allnames and draw(st.integers(0, 5)) > 0:
            si, lab, d, nm = draw(st.sampled_from(allnames))
            chars = list(nm)
            # mutate the name into a pattern
            for _ in range(draw(st.integers(0, 3))):
                if not chars:
                    break
                op = draw(st.sampled_from(["hash", "star", "flip", "starrun", "drop", "meta"]))
                pos = draw(st.integers(0, len(chars) - 1))
                if op == "hash":
                    chars[pos] = "#"
                elif op == "star":
                    chars[pos] = "*"
                elif op == "flip":
                    chars[pos] = chars[pos].swapcase()
                elif op == "starrun":
                    chars[pos:] = ["*"]
                elif op == "drop":
                    del chars[pos]
                elif op == "meta":
                    chars[pos] = chr(draw(st.sampled_from(META)))
            body = "".join(chars) or "*"
            dform = draw(st.sampled_from(["own", "own-flip", "hash", "star", "none", "other"]))
            if dform == "own":
                dd = d
            elif dform == "own-flip":
                dd = d.swapcase()
            elif dform == "hash":
                dd = "#"
            elif dform == "star":
                dd = "*"
            elif dform == "other":
                dd = chr(draw(st.sampled_from(usechars)))
            else:
                dd = None
            drv = draw(st.sampled_from(["own", "none", "other"]))
            spec = ""
            if drv == "own":
                spec = ":%d%s." % (si, lab or "")
            elif drv == "other":
                spec = ":%d." % draw(st.integers(0, 2))
            spec += (dd + "." if dd is not None else "") + body
        else:
            spec = draw(st.sampled_from(["*", "#.*", "*.*", "#.#", "#######", "*#", "", ".", "A..B", "*.", ":0.", "$.",
                                         "########", ":0.#.*", ":1.#.*", "#.*.*"]))
        pats.append(spec)
    cur_drive = draw(st.integers(0, nsurf - 1))
    cur_vol = None
    if opus:
        cur_vol = draw(st.sampled_from([None] + [v["label"] for v in surfaces[0]["volumes"]]))
    cur_dir = chr(draw(st.one_of(st.just(ord("$")), st.sampled_from(usechars))))
    lookups = []
    for _ in range(draw(st.integers(2, 6))):
        if not allnames:
            break
        si, lab, d, nm = draw(st.sampled_from(allnames))
        form = draw(st.sampled_from(["full", "full", "nodrive", "bare", "flipname", "flipdir", "nearmiss", "wrongdir",
                                     "bit5", "bit5"]))
        lookups.append({"target": [si, lab, d, nm], "form": form})
    return {"surfaces": surfaces, "patterns": pats, "cur_drive": cur_drive, "cur_vol": cur_vol, "cur_dir": cur_dir,
            "lookups": lookups, "opus": opus}


def enum_cases():
    """every single-character name x every single-character pattern over the DFS alphabet"""
    alphabet = CHARS
    for chunk in range(0, len(alphabet), 30):
        names = alphabet[chunk:chunk + 30]
        yield {"enum": True, "names": names}


class C15(CheckBase):
    pid = "C15"
    level = "exploration"
    variants = ("dbg", "asan")
    rule = ("generated catalogues of names over the DFS character set (biased to regex metacharacters ^$[]()\\+?|{}-! "
            "and mixed case), wildcards derived from the names (# / * substitution, case flips, dropped / wrong "
            "drive and directory, Opus volume letters) plus fixed ones, any --drive/--dir; `info` output compared "
            "with a 40-line recursive matcher written from doc/dfs.1; name lookups (type --binary) in every "
            "qualification form, case-flipped and near-miss.  Enumerated: every single-character name x every "
            "single-character pattern of the DFS alphabet (exhaustive).  Non-trivial: a pattern or name with a "
            "regex metacharacter, a match depending on case folding, or a defaulted drive/directory")
    assumptions = ("malformed wildcards are only required to select nothing (exit status not judged)",
                   "directory letters compare case-insensitively for lookups (statement: 'case-insensitive comparison')",
                   "names unique per volume up to case (including the directory letter)")
    exhaustive_note = "all single-character names x all single-character patterns over the 89-character DFS alphabet"
    min_nontrivial = {"quick": 150, "thorough": 1500}
    budget_s = {"quick": 35, "thorough": 900}

    def strategy(self, tier):
        return case_st()

    def examples(self, tier):
        return 1500 if tier == "quick" else 40000

    def enumerated(self, tier):
        return enum_cases()

    def sample(self, case):
        if case.get("enum"):
            return {"enum-names": "".join(chr(c) for c in case["names"])}
        return {"patterns": case["patterns"], "cur": [case["cur_drive"], case["cur_vol"], case["cur_dir"]],
                "lookups": [[l["form"]] + l["target"] for l in case["lookups"]],
                "names": [chr(e["dir"]) + "." + e["name"].decode("latin-1")
                          for s in case["surfaces"] for v in s["volumes"] for e in disc.all_entries(v)][:12]}

    def judge(self, ctx, case):
        v = Verdict()
        if case.get("enum"):
            return self._enum(ctx, case, v)
        dfs = ctx.tool("asan" if len(case["patterns"]) % 5 == 0 else "dbg", "dfs")
        with runtool.Sandbox("c15") as sb:
            files = []
            cats = {}
            bodies = {}
            for si, s in enumerate(case["surfaces"]):
                ext = "sdd" if s["spt"] != 10 else "ssd"
                files += ["--file", sb.file("d%d.%s" % (si, ext), disc.build_surface(s))]
                for vol in s["volumes"]:
                    key = (si, vol["label"])
                    cats[key] = [(chr(e["dir"]), e["name"].decode("latin-1")) for e in disc.all_entries(vol)]
                    for e in disc.all_entries(vol):
                        bodies[key + (chr(e["dir"]), e["name"].decode("latin-1"))] = disc.body_of(e)
            cur = "%d%s" % (case["cur_drive"], case["cur_vol"] or "")
            base = [dfs] + files + ["--drive", cur, "--dir", case["cur_dir"]]
            for spec in case["patterns"]:
                r = runtool.run(base + ["info", spec], sb.path)
                v.evaluations += 1
                if r.signal is not None or r.timed_out:
                    v.fail("C15/crash", "info %r: signal/timeout" % spec, r.brief())
                    continue
                sel = ref_select(spec, case["cur_drive"], case["cur_vol"], case["cur_dir"], cats)
                if sel is None:
                    if r.stdout.strip():
                        v.fail("C15/malformed-selects", "malformed wildcard %r selected files" % spec, r.brief())
                    continue
                (drive, vol), dpat, npat = sel
                # an Opus disc addressed without a letter means volume A
                key = (drive, vol)
                if key not in cats and vol is None and (drive, "A") in cats:
                    key = (drive, "A")
                if key not in cats:
                    if r.status == 0 and r.stdout.strip():
                        v.fail("C15/absent-volume", "wildcard %r on an absent drive/volume printed files" % spec, r.brief())
                    continue
                want = [(d, n) for (d, n) in cats[key] if wild_match(dpat, d) and wild_match(npat, n)]
                self._classify(v, spec, dpat, npat, want, cats[key], sel, case)
                if r.status != 0:
                    v.fail("C15/valid-pattern-rejected", "info %r failed" % spec, r.brief())
                    continue
                try:
                    got = [(chr(x["dir"]), x["name"].decode("latin-1")) for x in parse.parse_info(r.stdout)]
                except ValueError as ex:
                    v.fail("C15/parse", str(ex), r.brief())
                    continue
                if got != want:
                    extra = [g for g in got if g not in want]
                    missing = [w for w in want if w not in got]
                    key_ = "C15/wildcard"
                    if "^" in spec:
                        key_ = "C15/caret"
                    v.fail(key_, "info %r (drive %s dir %s) selected %s, semantics say %s"
                           % (spec, cur, case["cur_dir"], got[:8], want[:8]),
                           {"extra": extra[:8], "missing": missing[:8], "catalogue": cats[key][:20]})
            # ---- lookups
            for lk in case["lookups"]:
                si, lab, d, nm = lk["target"]
                form = lk["form"]
                key = (si, lab)
                drv = ":%d%s." % (si, lab or "")
                opts = []
                name = nm
                dd = d
                expect_found = True
                if form == "flipname":
                    name = nm.swapcase()
                elif form == "flipdir":
                    dd = d.swapcase()
                elif form == "nearmiss":
                    name = (nm + "X")[:7] if len(nm) < 7 else nm[:-1]
                    expect_found = any(n.lower() == name.lower() and x.lower() == d.lower() for x, n in cats[key])
                elif form == "bit5":
                    # swap one non-letter for its "bit 5" partner ([ <-> {, \ <-> |, ] <-> }, ^ <-> ~, @ <-> `, _ <-> DEL):
                    # these are different characters, only LETTERS compare case-insensitively
                    idx = [i for i, ch in enumerate(nm) if ch in "[\\]^{|}~@`"]
                    if idx:
                        i = idx[len(nm) % len(idx)]
                        name = nm[:i] + chr(ord(nm[i]) ^ 0x20) + nm[i + 1:]
                    elif d in "[\\]^{|}~@`":
                        dd = chr(ord(d) ^ 0x20)
                    else:
                        name = (nm + "[")[:7] if len(nm) < 7 else "[" + nm[1:]
                    expect_found = any(n.lower() == name.lower() and x.lower() == dd.lower() for x, n in cats[key])
                elif form == "wrongdir":
                    dd = "~" if d != "~" else "}"
                    expect_found = any(n.lower() == nm.lower() and x.lower() == dd.lower() for x, n in cats[key])
                if form == "nodrive":
                    spec = "%s.%s" % (dd, name)
                    opts = ["--drive", "%d%s" % (si, lab or "")]
                elif form == "bare":
                    spec = name
                    opts = ["--drive", "%d%s" % (si, lab or ""), "--dir", dd]
                else:
                    spec = "%s%s.%s" % (drv, dd, name)
                r = runtool.run([dfs] + files + opts + ["type", "--binary", "--", spec], sb.path)
                v.evaluations += 1
                if r.signal is not None or r.timed_out:
                    v.fail("C15/crash", "type %r: signal/timeout" % spec, r.brief())
                    continue
                if form in ("flipname", "flipdir", "bit5") or any(ord(c) in META for c in spec):
                    v.nontrivial = True
                    v.classes.append("lookup-" + form)
                if expect_found:
                    # which entry should be found (case-insensitive)
                    hits = [(x, n) for x, n in cats[key] if n.lower() == name.lower() and x.lower() == dd.lower()]
                    body = bodies[key + hits[0]]
                    if r.status != 0 or r.stdout != body:
                        k = "C15/lookup-dir-case" if form == "flipdir" and d.swapcase() != d else "C15/lookup"
                        v.fail(k, "type %r (%s) did not deliver the file %s.%s" % (spec, form, d, nm), r.brief())
                else:
                    if r.status == 0 or b"not found" not in r.stderr:
                        v.fail("C15/lookup-notfound", "type %r should report 'not found'" % spec, r.brief())
        return v

    def _classify(self, v, spec, dpat, npat, want, cat, sel, case):
        cl = []
        if any(ord(c) in META for c in spec) or any(ord(c) in META for d, n in cat for c in d + n):
            cl.append("regex-metacharacter")
        plain = [(d, n) for (d, n) in cat if wild_match(dpat, d) and wild_match(npat, n)]
        strict = [(d, n) for (d, n) in cat if _cs_match(dpat, d) and _cs_match(npat, n)]
        if plain != strict:
            cl.append("case-folding-matters")
        if not spec.startswith(":"):
            cl.append("default-drive")
        if split_spec(spec) and split_spec(spec)[2] is None:
            cl.append("default-dir")
        if want:
            cl.append("selects-some")
        v.classes.extend(cl)
        if cl and cl != ["selects-some"]:
            v.nontrivial = True

    def _enum(self, ctx, case, v):
        dfs = ctx.tool("dbg", "dfs")
        names = case["names"]
        ents = []
        for i, c in enumerate(names):
            ents.append({"name": bytes([c]), "dir": ord("$"), "locked": False, "load": 0, "exec": 0, "length": 0,
                         "start": 2, "body": {"kind": "zero", "seed": 0}})
        # names must be unique up to case: split into two discs if both cases present
        groups = [[], []]
        seen = set()
        for e in ents:
            k = e["name"].lower()
            groups[1 if k in seen else 0].append(e)
            seen.add(k)
        with runtool.Sandbox("c15e") as sb:
            for gi, grp in enumerate(groups):
                if not grp:
                    continue
                surf = {"variant": "acorn", "tracks": 40, "spt": 10, "fill": {"kind": "zero", "seed": 0},
                        "volumes": [{"label": None, "title": b"ENUM", "cycle": 0, "boot": 0, "total": 400,
                                     "cats": [grp]}]}
                img = sb.file("e%d.ssd" % gi, disc.build_surface(surf))
                cat = [("$", e["name"].decode("latin-1")) for e in grp]
                for pc in CHARS + [ord("#"), ord("*")]:
                    pat = chr(pc)
                    r = runtool.run([dfs, "--file", img, "info", pat], sb.path)
                    v.evaluations += 1
                    v.nontrivial = True
                    want = [(d, n) for d, n in cat if wild_match(pat, n)]
                    try:
                        got = [(chr(x["dir"]), x["name"].decode("latin-1")) for x in parse.parse_info(r.stdout)]
                    except ValueError as ex:
                        v.fail("C15/parse", str(ex), r.brief())
                        continue
                    if r.status != 0 or got != want:
                        v.fail("C15/caret" if pat == "^" else "C15/enum", "pattern %r selected %s, expected %s"
                               % (pat, got[:6], want[:6]), r.brief())
        return v


def _cs_match(pat, text):
    if not pat:
        return not text
    p = pat[0]
    if p == "*":
        return any(_cs_match(pat[1:], text[i:]) for i in range(len(text) + 1))
    if not text:
        return False
    if p == "#":
        return _cs_match(pat[1:], text[1:])
    return p == text[0] and _cs_match(pat[1:], text[1:])


CHECK = C15()
