"""C16 -- every attached image gets its own drive number and commands read the right one."""
import itertools
import os
import re

from hypothesis import strategies as st

from vlib import containers, disc, runtool
from vlib.harness import CheckBase, Verdict

KINDS = ["ssd", "ssd", "dsd", "dsd", "sdd", "ddd", "mmb", "mmbx", "hfe1", "hfe2"]


def surface_for(tag, tracks=40, spt=10):
    title = ("T%s" % tag).encode()[:12]
    body = {"kind": "rand", "seed": sum(tag.encode()) * 131 + len(tag)}
    # long enough to leave track 0 (and track 1 on 10-sector discs): what tells the two sides of an interleaved image,
    # or neighbouring MMB slots, apart is where the LATER tracks come from
    ent = {"name": b"F", "dir": ord("$"), "locked": False, "load": 0, "exec": 0, "length": 5000, "start": 2,
           "body": body}
    total = min(tracks * spt, 1023) if spt == 10 else 720
    s = {"variant": "acorn", "tracks": tracks, "spt": spt, "fill": {"kind": "zero", "seed": 0},
         "volumes": [{"label": None, "title": title, "cycle": 0, "boot": 0, "total": total, "cats": [[ent]]}]}
    return s, title, disc.expand(body, 5000)


def opposite(m):
    return m + 2 if m % 4 < 2 else m - 2


@st.composite
def history_st(draw):
    ops = []
    n = draw(st.integers(1, 6))
    for i in range(n):
        if draw(st.integers(0, 2)) == 0:
            ops.append(["policy", draw(st.sampled_from(["first", "physical"]))])
        ops.append(["attach", draw(st.sampled_from(KINDS))])
    probes = draw(st.lists(st.integers(0, 14), min_size=1, max_size=4))
    return {"ops": ops, "probes": probes}


def enum_histories(maxn=4):
    """all histories of <= maxn attachments over {ssd, dsd} with an optional policy switch before each"""
    out = []
    for n in range(1, maxn + 1):
        for kinds in itertools.product(["ssd", "dsd"], repeat=n):
            for pol in itertools.product([None, "first", "physical"], repeat=n):
                ops = []
                for k, p in zip(kinds, pol):
                    if p:
                        ops.append(["policy", p])
                    ops.append(["attach", k])
                out.append({"ops": ops, "probes": [1, 2], "enum": True})
    return out


class C16(CheckBase):
    pid = "C16"
    level = "exploration"
    variants = ("dbg", "asan")
    rule = ("histories = sequences of --drive-first / --drive-physical / --file options (1-6 images drawn from "
            "one-sided .ssd/.sdd, two-sided .dsd/.ddd, one/two-sided .hfe, sparse .mmb with 2 populated slots), "
            "every surface with a unique title and file body; every PREFIX of the history is run.  Oracle (model + "
            "invariants): every surface appears under exactly one number; numbers never change when options are "
            "appended; first policy = lowest free numbers in order; physical policy = two-sided image at n,n+2 and "
            "no surface on the opposite side (n<->n+-2 within a block of 4) of a drive held by another image; "
            "--show-config agrees; cat k / type :k.$.F / --drive k info / --drive k type F, and the explicit forms under a "
            "different current drive (--drive j cat k, --drive j type|dump|list :k.$.F) return the title/body unique to the surface "
            "at k and fail for unoccupied k.  Enumerated: all histories of <= 3 (quick) / <= 4 (thorough) attachments over {ssd,dsd} x "
            "policy switches.  Non-trivial: a history with a policy switch, or >= 3 images, or an MMB")
    assumptions = ("where exactly the physical policy places an image is not stated by the property, so only its "
                   "invariants are checked (plus determinism/prefix stability)",
                   "MMB status bytes stay within {00,0F,FF}")
    exhaustive_note = ("all histories of <= 3 (quick: 258) / <= 4 (thorough: 1 554) attachments over {ssd, dsd} with "
                       "any policy option before each")
    min_nontrivial = {"quick": 100, "thorough": 1000}
    budget_s = {"quick": 45, "thorough": 900}

    def strategy(self, tier):
        return history_st()

    def examples(self, tier):
        return 500 if tier == "quick" else 20000

    def enumerated(self, tier):
        return enum_histories(3 if tier == "quick" else 4)

    def sample(self, case):
        return {"ops": case["ops"], "probes": case["probes"]}

    # ------------------------------------------------------------------
    def _materialise(self, sb, ops):
        """-> list of steps: ('policy', name) or ('attach', path, [surfaces...]) where surface = (title, body)"""
        steps = []
        idx = 0
        for op, arg in ops:
            if op == "policy":
                steps.append(("policy", arg))
                continue
            idx += 1
            kind = arg
            tag = "%d" % idx
            if kind in ("ssd", "sdd"):
                spt = 10 if kind == "ssd" else 18
                s, title, body = surface_for(tag + "a", 40, spt)
                p = sb.file("img%d.%s" % (idx, kind), disc.build_surface(s))
                steps.append(("attach", p, [(title, body)], kind))
            elif kind in ("dsd", "ddd"):
                spt = 10 if kind == "dsd" else 18
                s0, t0, b0 = surface_for(tag + "a", 40, spt)
                s1, t1, b1 = surface_for(tag + "b", 40, spt)
                p = sb.file("img%d.%s" % (idx, kind),
                            containers.interleaved(disc.build_surface(s0), disc.build_surface(s1), spt))
                steps.append(("attach", p, [(t0, b0), (t1, b1)], kind))
            elif kind in ("hfe1", "hfe2"):
                from vlib import flux
                s0, t0, b0 = surface_for(tag + "a", 40, 10)
                sides = [disc.build_surface(s0)]
                surfs = [(t0, b0)]
                if kind == "hfe2":
                    s1, t1, b1 = surface_for(tag + "b", 40, 10)
                    sides.append(disc.build_surface(s1))
                    surfs.append((t1, b1))
                data = flux.hfe_from_sides(sides, 40, 10, "FM", version=1)
                p = sb.file("img%d.hfe" % idx, data)
                steps.append(("attach", p, surfs, kind))
            elif kind in ("mmb", "mmbx"):
                sa, ta, ba = surface_for(tag + "a", 80, 10)
                sb_, tb, bb = surface_for(tag + "b", 80, 10)
                p = os.path.join(sb.path, "img%d.mmb" % idx)
                slots = {0: (0x0F, disc.build_surface(sa)), 3: (0x00, disc.build_surface(sb_))}
                if kind == "mmbx":
                    slots[5] = (0x55, None)      # a status byte mmb(5) does not define: slot is not present
                containers.write_mmb(p, slots)
                surfs = [(ta, ba), None, None, (tb, bb)] + [None] * 507
                steps.append(("attach", p, surfs, kind))
        return steps

    def judge(self, ctx, case):
        v = Verdict()
        dfs = ctx.tool("asan" if len(case["ops"]) % 4 == 0 else "dbg", "dfs")
        ops = case["ops"]
        nattach = sum(1 for o in ops if o[0] == "attach")
        if any(o[0] == "policy" for o in ops) or nattach >= 3 or any(o[1] in ("mmb", "mmbx") for o in ops):
            v.nontrivial = True
        for o in ops:
            v.classes.append("kind-" + o[1] if o[0] == "attach" else "policy-" + o[1])
        with runtool.Sandbox("c16") as sb:
            try:
                steps = self._materialise(sb, ops)
            except ImportError:
                v.skipped = "flux-encoder-not-available"
                return v
            opts = []
            policy = "physical"
            assigned = {}          # (step index, surface index) -> number
            occupied = {}          # number -> step index (formatted or not)
            prev_map = {}
            for si, step in enumerate(steps):
                if step[0] == "policy":
                    opts.append("--drive-" + step[1])
                    policy = step[1]
                    continue
                _, path, surfs, kind = step
                opts += ["--file", path]
                r = runtool.run([dfs] + opts + ["--show-config", "show-titles"], sb.path, timeout=30)
                v.evaluations += 1
                if r.signal is not None or r.timed_out:
                    v.fail("C16/crash", "signal/timeout with options %s" % opts, r.brief())
                    return v
                titles = {}
                for ln in r.stdout.split(b"\n"):
                    m = re.match(rb"^(\d+): (.*)$", ln)
                    if m:
                        n_ = int(m.group(1))
                        if n_ in titles:
                            v.fail("C16/duplicate-number", "drive %d listed twice" % n_, r.brief())
                        titles[n_] = m.group(2)
                cfg = {}
                for ln in r.stderr.split(b"\n"):
                    m = re.match(rb"^Drive +([0-9A-Fa-f]+): (occupied|empty)(.*)$", ln)
                    if m:
                        try:
                            cfg[int(m.group(1))] = (m.group(2), m.group(3))
                        except ValueError:
                            v.fail("C16/show-config-number", "drive number not decimal: %r" % ln, r.brief())
                # ---- earlier surfaces keep their numbers
                for num, t in prev_map.items():
                    if titles.get(num) != t:
                        v.fail("C16/moved", "surface %r was at drive %d before %s was attached, now drive %d shows %r"
                               % (t, num, os.path.basename(path), num, titles.get(num)), r.brief())
                        return v
                # ---- the new image's surfaces
                new_nums = []
                for k, sf in enumerate(surfs):
                    if sf is None:
                        continue
                    where = [n_ for n_, t in titles.items() if t == sf[0]]
                    if len(where) != 1:
                        v.fail("C16/not-exactly-once", "surface %r of %s is attached %d times (%s)"
                               % (sf[0], os.path.basename(path), len(where), where), r.brief())
                        return v
                    new_nums.append((k, where[0]))
                    assigned[(si, k)] = where[0]
                # numbers of all surfaces of this image (including unformatted MMB slots) from --show-config
                mine = sorted(n_ for n_, (st_, rest) in cfg.items()
                              if st_ == b"occupied" and os.path.basename(path).encode() in rest and n_ not in occupied)
                if len(mine) != len(surfs):
                    v.fail("C16/show-config", "--show-config lists %d drives for %s which has %d surfaces"
                           % (len(mine), os.path.basename(path), len(surfs)), r.brief())
                    return v
                for k, num in new_nums:
                    if mine[k] != num:
                        v.fail("C16/show-config-order", "surface %d of %s: --show-config says drive %d, show-titles %d"
                               % (k, os.path.basename(path), mine[k], num), r.brief())
                if policy == "first":
                    free = [n_ for n_ in range(0, max(mine) + 2) if n_ not in occupied]
                    if mine != free[:len(mine)]:
                        v.fail("C16/first-policy", "--drive-first put %s at %s, lowest free numbers are %s"
                               % (os.path.basename(path), mine[:6], free[:6]), r.brief())
                else:
                    for a, b in zip(mine, mine[1:]):
                        if b != a + 2:
                            v.fail("C16/physical-stride", "surfaces of %s at %s are not n, n+2, ..." %
                                   (os.path.basename(path), mine[:6]), r.brief())
                            break
                    for m_ in mine:
                        o = opposite(m_)
                        if o in occupied:
                            v.fail("C16/physical-opposite", "%s took drive %d, the opposite side of drive %d held by "
                                   "another image" % (os.path.basename(path), m_, o), r.brief())
                            break
                for m_ in mine:
                    occupied[m_] = si
                prev_map = dict(titles)
            # ---- addressing on the final configuration
            final = {}
            for (si, k), num in assigned.items():
                final[num] = steps[si][2][k]
            probes = sorted(set(case["probes"]) | set(list(final)[:3]))[:6]
            for k in probes:
                exp = final.get(k)
                runs = [(["cat", str(k)], "cat"), (["type", "--binary", ":%d.$.F" % k], "type"),
                        (["--drive", str(k), "info", "F"], "info"),
                        (["--drive", str(k), "type", "--binary", "F"], "type")]
                # an explicit address wins over a different current drive j (another occupied drive)
                others = [j for j in sorted(final) if j != k]
                if others:
                    j = others[(k + case["probes"][0]) % len(others)]
                    runs += [(["--drive", str(j), "cat", str(k)], "cat"),
                             (["--drive", str(j), "type", "--binary", ":%d.$.F" % k], "type"),
                             (["--drive", str(j), "dump", ":%d.$.F" % k], "dump"),
                             (["--drive", str(j), "list", ":%d.$.F" % k], "list")]
                    v.classes.append("explicit-address-vs-other-current-drive")
                for args, what in runs:
                    if args[0] == "--drive":
                        argv = [dfs] + opts + args
                    else:
                        argv = [dfs] + opts + args
                    r = runtool.run(argv, sb.path, timeout=30)
                    v.evaluations += 1
                    if r.signal is not None or r.timed_out:
                        v.fail("C16/crash", "%s %d: signal/timeout" % (what, k), r.brief())
                        continue
                    if exp is None:
                        if r.status == 0:
                            v.fail("C16/unoccupied-readable", "%s on unoccupied/unformatted drive %d succeeded" % (what, k),
                                   r.brief())
                        continue
                    title, body = exp
                    ok = r.status == 0
                    if what == "cat":
                        ok = ok and r.stdout.startswith(title) and (b"Drive %d" % k) in r.stdout
                    elif what == "type":
                        ok = ok and r.stdout == body
                    elif what == "dump":
                        ok = ok and r.stdout == disc.render_dump(body)
                    elif what == "list":
                        ok = ok and r.stdout == disc.render_list(body)
                    else:
                        ok = ok and r.stdout.startswith(b"$.F")
                    if not ok:
                        v.fail("C16/wrong-surface", "%s addressed to drive %d did not show surface %r" % (what, k, title),
                               r.brief())
        return v


CHECK = C16()
