"""C17 -- no command returns bytes from outside the volume or surface being read."""
import copy
import os
import re

from hypothesis import strategies as st

from vlib import containers, disc, runtool
from vlib.harness import CheckBase, Verdict


def _ent(name, start, length, seed):
    return {"name": name, "dir": ord("$"), "locked": False, "load": 0, "exec": 0, "length": length,
            "start": start, "body": {"kind": "rand", "seed": seed}}


@st.composite
def case_st(draw):
    kind = draw(st.sampled_from(["opus", "opus", "one", "inter0", "inter1", "mmb", "mmb-hdfsx"]))
    delta = draw(st.sampled_from([-2, -1, 0, 1, 2, 2, 1, 17, 300]))
    nsec = draw(st.sampled_from([1, 2, 3, 5, 19]))
    rem = draw(st.sampled_from([0, 1, 255]))
    # `ui`: a presentation option placed AFTER --drive on the same command line (it must not disturb the selection)
    c = {"kind": kind, "delta": delta, "nsec": nsec, "rem": rem, "seed": draw(st.integers(0, 9999)),
         "ui": draw(st.sampled_from([None, None, "acorn", "opus", "watford"]))}
    if kind == "opus":
        c["tracks"] = draw(st.sampled_from([35, 40, 80]))
        nvol = draw(st.integers(2 if c["tracks"] == 80 else 1, 8))
        # equal-ish split of the tracks
        avail = c["tracks"] - 1
        base = max(1, min(56, avail // nvol))
        starts = [1 + i * base for i in range(nvol)]
        c["starts"] = starts
        if c["tracks"] - starts[-1] > 56:
            c["starts"] = [1 + i * 10 for i in range(8)]
        if draw(st.integers(0, 2)) == 0 and nvol >= 2:
            # uneven split: some volumes are a single track (18 sectors, the smallest an Opus volume can be)
            gaps = draw(st.lists(st.sampled_from([1, 1, 2, 3, base]), min_size=nvol - 1, max_size=nvol - 1))
            st2 = [1]
            for g in gaps:
                st2.append(st2[-1] + g)
            if st2[-1] < c["tracks"] and c["tracks"] - st2[-1] <= 56:
                c["starts"] = st2
        c["vol"] = draw(st.integers(0, len(c["starts"]) - 1))
        # the volume table need not list the volumes in disc order: a volume ends where the PHYSICALLY next one begins
        c["rot"] = draw(st.sampled_from([0, 0, 1, 2, 5]))
        # the volume's OWN catalogue may state more sectors than the volume table leaves it (the table decides)
        c["overclaim"] = draw(st.sampled_from([0, 0, 1, 18, 300, 1023]))
    elif kind == "mmb":
        c["slot"] = draw(st.sampled_from([0, 1, 2, 100, 509]))
        c["total"] = draw(st.sampled_from([800, 800, 400]))
    elif kind == "mmb-hdfsx":
        # an HDFS-flagged catalogue whose extension bit (bit 7 of the first title byte) makes the catalogue claim
        # 512 sectors more than the slot has: extract-unused then walks past the end of the slot
        c["slot"] = draw(st.sampled_from([0, 1, 2, 100, 509]))
        c["total"] = draw(st.sampled_from([300, 400, 511, 256]))        # < 512, so that the extension bit adds 512
    else:
        c["tracks"] = draw(st.sampled_from([35, 40, 80]))
        c["spt"] = draw(st.sampled_from([10, 18]))
    return c


class C17(CheckBase):
    pid = "C17"
    level = "exploration"
    variants = ("asan", "dbg")
    rule = ("generated catalogues with one probe entry (the top entry of its catalogue) whose extent ends at "
            "boundary-2 .. boundary+2 (and +17, +300) sectors relative to: the end of each Opus volume A-H (even or "
            "uneven split, single-track volumes included), the end "
            "of a one-sided surface, the end of side 0 / side 1 of an interleaved two-sided image, the end of an MMB "
            "slot, and extract-unused on an MMB slot whose HDFS catalogue (extension bit) claims 512 sectors more than "
            "the slot has; neighbouring regions hold different random data.  type --binary, dump and extract-files are run "
            "on the ASan build.  Oracle: extent inside => exit 0 and the exact bytes; otherwise exit != 0 with a "
            "diagnostic; in every case any output (stdout or extracted file) is a prefix of the in-bounds bytes, "
            "so no foreign byte is ever shown.  Non-trivial: extent ending within +-2 sectors of a boundary")
    assumptions = ("the boundary of an Opus volume is the start of the next volume in the sector-16 table (or the "
                   "end of the disc); the boundary of a surface is tracks x sectors-per-track of its geometry",
                   "two-sided non-interleaved images are excluded (known finding of C04)")
    min_nontrivial = {"quick": 100, "thorough": 1000}
    budget_s = {"quick": 30, "thorough": 600}

    def strategy(self, tier):
        return case_st()

    def examples(self, tier):
        return 5000 if tier == "quick" else 60000

    def sample(self, case):
        return case

    def judge(self, ctx, case):
        v = Verdict()
        dfs = ctx.tool("dbg" if case["seed"] % 4 == 0 else "asan", "dfs")
        kind = case["kind"]
        delta, nsec = case["delta"], case["nsec"]
        with runtool.Sandbox("c17") as sb:
            opts = []
            if kind == "mmb-hdfsx":
                return self._hdfs_extension(v, dfs, sb, case)
            if kind == "opus":
                tracks, spt = case["tracks"], 18
                starts = list(case["starts"])
                rot = case.get("rot", 0) % len(starts)
                starts = starts[rot:] + starts[:rot]
                phys = sorted(starts)
                vi = case["vol"]
                if rot:
                    v.classes.append("opus-table-not-in-disc-order")
                if any(b - a == 1 for a, b in zip(phys, phys[1:] + [tracks])):
                    v.classes.append("opus-one-track-volume")
                vols_full, vols_clip = [], []
                boundary = None
                for i, stt in enumerate(starts):
                    later = [x for x in phys if x > stt]
                    end = later[0] if later else tracks
                    vlen = (end - stt) * spt
                    ents = [_ent(b"LOW", 0, 700, 10 + i)]
                    entsc = copy.deepcopy(ents)
                    if i == vi:
                        boundary = vlen
                        pend = vlen + delta
                        pstart = max(3, pend - nsec)
                        if pstart > 1023:
                            pstart = 1000      # 10-bit start sector: reach the boundary with a long file
                        plen = max(1, (pend - pstart) * 256 - case["rem"])
                        inb = max(0, min(plen, (vlen - pstart) * 256))
                        ents.insert(0, _ent(b"PROBE", pstart, plen, 99))
                        entsc.insert(0, _ent(b"PROBE", pstart, inb, 99))
                        probe = (pstart, plen, inb)
                    claim = min(vlen + (case.get("overclaim", 0) if i == vi else 0), 1023)
                    if claim > vlen:
                        v.classes.append("opus-catalogue-claims-more-than-its-extent")
                    mk = lambda e_: {"label": "ABCDEFGH"[i], "start_track": stt, "title": b"V%d" % i, "cycle": i,
                                     "boot": 0, "total": max(claim, 18), "cats": [e_]}
                    vols_full.append(mk(ents))
                    vols_clip.append(mk(entsc))
                sf = {"variant": "opus", "tracks": tracks, "spt": spt, "fill": {"kind": "rand", "seed": case["seed"]},
                      "volumes": vols_full}
                sc = dict(sf, volumes=vols_clip)
                data = bytearray(disc.build_surface(sc))
                full = disc.build_surface(sf)
                data[0:16 * 256] = full[0:16 * 256]
                img = sb.file("d.sdd", bytes(data))
                vsel = "0" + "ABCDEFGH"[vi]
                inside = probe[0] * 256 + probe[1] <= boundary * 256
                origin = starts[vi] * spt
                expect = bytes(data[(origin + probe[0]) * 256:(origin + probe[0]) * 256 + probe[2]])
                label = "opus volume %s of %d (boundary %d sectors)" % ("ABCDEFGH"[vi], len(starts), boundary)
            else:
                if kind == "mmb":
                    tracks, spt = 80, 10
                    total = case["total"]
                else:
                    tracks, spt = case["tracks"], case["spt"]
                    total = min(tracks * spt, 1023)
                boundary = tracks * spt
                pend = boundary + delta
                pstart = pend - nsec
                if pstart > 1023:
                    pstart = 1000          # 10-bit start sector: reach the boundary with a long file
                if pstart < 3:
                    v.skipped = "probe-start-not-expressible"
                    return v
                plen = max(1, (pend - pstart) * 256 - case["rem"])
                if plen > 0x3FFFF:
                    v.skipped = "probe-length-not-expressible"
                    return v
                inb = max(0, min(plen, (boundary - pstart) * 256))

                def surf(seed, with_probe, clip):
                    ents = [_ent(b"LOW", 2, 700, seed)]
                    if with_probe:
                        ents.insert(0, _ent(b"PROBE", pstart, inb if clip else plen, 99))
                    return {"variant": "acorn", "tracks": tracks, "spt": spt, "fill": {"kind": "rand", "seed": seed},
                            "volumes": [{"label": None, "title": b"S%d" % seed, "cycle": 1, "boot": 0,
                                         "total": total, "cats": [ents]}]}

                def build(seed, with_probe):
                    d = bytearray(disc.build_surface(surf(seed, with_probe, True)))
                    f = disc.build_surface(surf(seed, with_probe, False))
                    d[0:512] = f[0:512]
                    return bytes(d)
                if kind == "one":
                    mine = build(case["seed"], True)
                    img = sb.file("d." + ("ssd" if spt == 10 else "sdd"), mine)
                    drive = 0
                elif kind in ("inter0", "inter1"):
                    a = build(case["seed"], kind == "inter0")
                    b = build(case["seed"] + 1, kind == "inter1")
                    mine = a if kind == "inter0" else b
                    img = sb.file("d." + ("dsd" if spt == 10 else "ddd"), containers.interleaved(a, b, spt))
                    drive = 0 if kind == "inter0" else 2
                else:
                    mine = build(case["seed"], True)
                    nxt = build(case["seed"] + 1, False)
                    slot = case["slot"]
                    img = os.path.join(sb.path, "a.mmb")
                    containers.write_mmb(img, {slot: (0x0F, mine), slot + 1: (0x00, nxt)})
                    opts = ["--drive-first"]
                    drive = slot
                vsel = str(drive)
                inside = pstart * 256 + plen <= boundary * 256
                expect = mine[pstart * 256:pstart * 256 + inb]
                label = "%s (boundary %d sectors)" % (kind, boundary)
            v.classes.append(kind)
            v.classes.append("inside" if inside else "crossing")
            if abs(delta) <= 2:
                v.nontrivial = True
            # ---- type --binary and dump (volume A of an Opus disc also through the plain drive number)
            sels = [vsel] + (["0"] if kind == "opus" and vsel == "0A" else [])
            for sel in sels:
                fq = ":%s.$.PROBE" % sel
                for cmd, render in ((["type", "--binary", fq], lambda b: b), (["dump", fq], disc.render_dump)):
                    r = runtool.run([dfs] + opts + ["--file", img] + cmd, sb.path)
                    v.evaluations += 1
                    self._verdict(v, r, inside, render(expect), cmd[0] + " " + fq, label, delta, r.stdout)
            uiopt = ["--ui", case["ui"]] if case.get("ui") else []
            # ---- the same file through the current drive (--drive, then possibly --ui) and an unqualified name
            r = runtool.run([dfs] + opts + ["--file", img, "--drive", vsel] + uiopt + ["type", "--binary", "PROBE"], sb.path)
            v.evaluations += 1
            self._verdict(v, r, inside, expect, "--drive %s %s type PROBE" % (vsel, " ".join(uiopt)), label, delta, r.stdout)
            # ---- extract-files
            dest = sb.mkdir("out")
            r = runtool.run([dfs] + opts + ["--file", img, "--drive", vsel] + uiopt + ["extract-files", dest], sb.path)
            v.evaluations += 1
            try:
                with open(os.path.join(dest, "PROBE"), "rb") as fh:
                    got = fh.read()
            except OSError:
                got = b""
            self._verdict(v, r, inside, expect, "extract-files", label, delta, got)
        return v

    def _hdfs_extension(self, v, dfs, sb, case):
        def surf(seed):
            return {"variant": "hdfs", "tracks": 80, "spt": 10, "fill": {"kind": "rand", "seed": seed},
                    "volumes": [{"label": None, "title": b"HX%d" % seed, "cycle": 1, "boot": 0, "total": case["total"],
                                 "title_top": 1, "cats": [[_ent(b"LOW", 2, 700, seed)]]}]}
        mine = disc.build_surface(surf(case["seed"]))
        nxt = disc.build_surface(surf(case["seed"] + 1))
        slot = case["slot"]
        img = os.path.join(sb.path, "a.mmb")
        containers.write_mmb(img, {slot: (0x0F, mine), slot + 1: (0x00, nxt)})
        dest = sb.mkdir("out")
        r = runtool.run([dfs, "--drive-first", "--file", img, "--drive", str(slot), "extract-unused", dest], sb.path)
        v.evaluations += 1
        v.nontrivial = True
        v.classes.append("mmb-hdfs-extension-bit")
        if r.timed_out or r.signal is not None or r.sanitizer_report():
            v.fail("C17/crash", "extract-unused on an HDFS slot with the extension bit: signal/sanitizer", r.brief())
            return v
        for f in sorted(os.listdir(dest)):
            m = re.match(r"^unused_([0-9A-Fa-f]+)\.bin$", f)
            if not m:
                continue
            first = int(m.group(1), 16)
            with open(os.path.join(dest, f), "rb") as fh:
                got = fh.read()
            inb = mine[first * 256:first * 256 + len(got)]
            if got != inb:
                v.fail("C17/foreign-bytes", "extract-unused %s of MMB slot %d (800 sectors, catalogue claims %d + 512): "
                       "%d bytes written, only %d lie inside the slot" % (f, slot, case["total"], len(got), len(inb)),
                       {"run": r.brief(), "tail_written": got[-32:]})
                break
        return v

    def _verdict(self, v, r, inside, expect, cmd, label, delta, got):
        if r.timed_out or r.signal is not None or r.sanitizer_report():
            v.fail("C17/crash", "%s on %s delta %+d: signal/sanitizer" % (cmd, label, delta), r.brief())
            return
        if not expect.startswith(got) and not (inside and got == expect):
            v.fail("C17/foreign-bytes", "%s on %s, extent ends %+d sectors from the boundary: output is not a prefix of "
                   "the in-bounds bytes (%d bytes shown, %d in bounds)" % (cmd, label, delta, len(got), len(expect)),
                   {"run": r.brief(), "tail_shown": got[-32:], "tail_inbounds": expect[-32:]})
            return
        if inside:
            if r.status != 0 or got != expect:
                v.fail("C17/inside-rejected", "%s on %s delta %+d: extent is inside but exit %s / %d of %d bytes"
                       % (cmd, label, delta, r.status, len(got), len(expect)), r.brief())
        else:
            if r.status == 0:
                v.fail("C17/crossing-accepted", "%s on %s: extent ends %+d sectors past the boundary but exit 0"
                       % (cmd, label, delta), r.brief())
            elif not r.stderr.strip():
                v.fail("C17/silent", "failure without diagnostic", r.brief())


CHECK = C17()
