"""C18 -- diagnostic and presentation options never change the data shown."""
import re

from hypothesis import strategies as st

from checks import c07
from vlib import disc, parse, runtool
from vlib.harness import CheckBase, Verdict

COMMANDS = [["cat"], ["info", "#.*"], ["type", "--binary", "NAME"], ["dump", "NAME"], ["list", "NAME"],
            ["dump-sector", "0", "1", "2"], ["free"], ["space"], ["sector-map"], ["show-titles"], ["help"],
            ["cat", "0"], ["extract-unused", "OUT"], ["info", "*"], ["type", "--binary", "UNQ"], ["list", "UNQ"]]
COLS = [None, "1", "20", "39", "40", "79", "80", "200", "abc", "1000000000000000000000000000000", "0", "-5"]
UIS = [None, "acorn", "watford", "opus"]


@st.composite
def case_st(draw):
    img = draw(c07.image_case())
    if draw(st.integers(0, 2)) > 0:
        img["muts"] = []              # mostly valid images; sometimes hostile
    img["gz"] = draw(st.sampled_from([0, 0, 0, 1]))
    return {"image": img, "cmds": draw(st.lists(st.integers(0, len(COMMANDS) - 1), min_size=2, max_size=4, unique=True)),
            "cols": draw(st.sampled_from(COLS)), "ui": draw(st.sampled_from(UIS)),
            # other global options on the same command line, and where the option under test goes among them
            "drive": draw(st.sampled_from([None, None, "0", "2", "1"])),
            "dir": draw(st.sampled_from([None, None, "ENTRY", "ENTRY", "B", "$"])),
            "order": draw(st.integers(0, 5)), "pos": draw(st.integers(0, 3)),
            "seed": draw(st.integers(0, 10 ** 6))}


def cat_content(stdout):
    """What `cat` reports, independent of layout: title, cycle, option, drive, set of cells."""
    pc = parse.parse_cat(stdout)
    hdr = pc["header"]
    head = b"\n".join(hdr)
    m = re.match(rb"^ ?(.*?) *\(([0-9A-Fa-f]{2})\)", hdr[0]) if hdr else None
    if m:
        title = m.group(1).strip()
    elif hdr:
        # no cycle number is shown (HDFS-flagged catalogues): the title is what precedes the density word
        title = re.sub(rb"(MFM|FM|Single density|Double density)\s*$", b"", hdr[0]).strip()
    else:
        title = None
    cycle = m.group(2).lower() if m else None
    opt = re.search(rb"Option (\d) \((\w+)\)", head)
    drv = re.search(rb"Drive (\d+[A-H]?)", head)
    return {"title": title, "cycle": cycle, "option": opt.group(0) if opt else None,
            "drive": drv.group(1) if drv else None, "cells": sorted(pc["cells"], key=repr)}


class C18(CheckBase):
    pid = "C18"
    level = "exploration"
    variants = ("dbg", "asan")
    rule = ("generated images of every container (valid, flux, and structure-mutated / hostile, plain or .gz) x 2-4 of "
            "16 command lines, accompanied by optional --drive / --dir options in a drawn order, x {--verbose, "
            "--show-config, both; inserted at a drawn position among the other options} compared with the "
            "run without the option: stdout bytes and exit status must be equal, --verbose must add stderr text on a "
            "valid image, a repeated run must be identical.  --ui acorn|watford|opus and COLUMNS in {unset, 1, 20, "
            "39, 40, 79, 80, 200, abc, 10^30, 0, -5} with stdout on a pipe and on a pseudo-terminal: for `cat` the "
            "parsed content (title, cycle, option, drive, set of (dir, name, lock) cells) must equal the baseline's; "
            "every other command's stdout must be byte-identical.  Non-trivial: a flux image, a hostile image, or a "
            "pseudo-terminal run with COLUMNS set")
    assumptions = ("the density word and the directory/library labels are presentation and may vary with --ui",)
    min_nontrivial = {"quick": 100, "thorough": 1000}
    budget_s = {"quick": 45, "thorough": 900}

    def strategy(self, tier):
        return case_st()

    def examples(self, tier):
        return 500 if tier == "quick" else 15000

    def sample(self, case):
        c = dict(case)
        c["image"] = {k: case["image"][k] for k in ("ext", "variant", "tracks", "spt", "gz")}
        c["image"]["mutations"] = [m["kind"] for m in case["image"]["muts"]]
        return c

    def judge(self, ctx, case):
        v = Verdict()
        dfs = ctx.tool("asan" if case["seed"] % 6 == 0 else "dbg", "dfs")
        ic = case["image"]
        try:
            data, bounds = c07.build_image(ic)
        except Exception as ex:
            v.skipped = "generator-error:%s" % type(ex).__name__
            return v
        hostile = bool(ic["muts"])
        data = bytes(c07.mutate(ic, data, bounds))
        name = "img." + ic["ext"]
        if ic["gz"]:
            data = c07.compress_image(ic, data)
            name += ".gz"
        nm = "F"
        unq = "F"
        entry_dir = "$"
        try:
            ents = disc.all_entries(ic["surface"]["volumes"][0])
            e = ents[0]
            nm = ":0.%s.%s" % (chr(e["dir"]), e["name"].decode("latin-1"))
            e2 = ents[case["seed"] % len(ents)]
            unq = e2["name"].decode("latin-1")
            entry_dir = chr(e2["dir"])
        except (IndexError, KeyError):
            pass
        # the global options that accompany the option under test: --file plus optional --drive / --dir, in a drawn
        # order; the option under test is inserted at a drawn position among them
        groups = []
        if case.get("drive") is not None:
            groups.append(["--drive", case["drive"]])
        if case.get("dir") is not None:
            groups.append(["--dir", entry_dir if case["dir"] == "ENTRY" else case["dir"]])
        if groups:
            v.classes.append("with-drive/dir-options")
        if ic["ext"] in ("hfe", "mfm"):
            v.nontrivial = True
            v.classes.append("flux")
            if ic.get("v3ops"):
                v.classes.append("flux-hfe3-opcodes")
        if hostile:
            v.nontrivial = True
            v.classes.append("hostile")
        with runtool.Sandbox("c18") as sb:
            img = sb.file(name, data)
            for ci in case["cmds"]:
                out = sb.mkdir("out%d" % ci)
                cmd = [out if a == "OUT" else (nm if a == "NAME" else (unq if a == "UNQ" else a)) for a in COMMANDS[ci]]
                gl = groups + [["--file", img]]
                k = case.get("order", 0) % len(gl)
                gl = gl[k:] + gl[:k]
                if case.get("order", 0) >= 3:
                    gl.reverse()

                def line(opts, where=None):
                    """global options with `opts` inserted at position `where` (default: the drawn one)"""
                    w = (case.get("pos", 0) if where is None else where) % (len(gl) + 1)
                    return [a for g in gl[:w] for a in g] + list(opts) + [a for g in gl[w:] for a in g]
                base = runtool.run([dfs] + line([]) + cmd, sb.path)
                v.evaluations += 1
                if base.signal is not None or base.timed_out:
                    v.skipped = "baseline-crashed"       # C07's business
                    continue
                variants = [(line(["--verbose"], 0), "verbose-before"), (line(["--verbose"], len(gl)), "verbose-after"),
                            (line(["--show-config"]), "show-config"),
                            (line(["--verbose", "--show-config"]), "both"),
                            (line([]), "repeat")]
                for pre, label in variants:
                    r = runtool.run([dfs] + pre + cmd, sb.path)
                    v.evaluations += 1
                    if r.signal is not None or r.timed_out:
                        v.fail("C18/crash", "%s with %s: signal/timeout (baseline did not)" % (cmd[0], label), r.brief())
                        continue
                    if r.stdout != base.stdout or r.status != base.status:
                        v.fail("C18/%s-changes-output" % label.split("-")[0],
                               "%s: stdout/exit differ with %s (exit %s vs %s, %d vs %d bytes)"
                               % (" ".join(cmd), label, r.status, base.status, len(r.stdout), len(base.stdout)),
                               {"with": r.brief(), "without": base.brief()})
                    elif label == "verbose-before" and base.status == 0 and not hostile and len(r.stderr) <= len(base.stderr):
                        v.fail("C18/verbose-silent", "--verbose added nothing to stderr on a valid image", r.brief())
                    elif label == "repeat" and r.stderr != base.stderr:
                        v.fail("C18/not-repeatable", "stderr differs between two identical runs", r.brief())
                # ---- presentation options
                ui = case["ui"]
                cols = case["cols"]
                env = {"COLUMNS": cols} if cols is not None else None
                uiopt = ["--ui", ui] if ui else []
                for mode in ("pipe", "pty"):
                    argv = [dfs] + line(uiopt) + cmd
                    if mode == "pipe":
                        r = runtool.run(argv, sb.path, env_extra=env)
                    else:
                        r = runtool.run_pty(argv, sb.path, env_extra=env)
                        if cols is not None:
                            v.nontrivial = True
                            v.classes.append("pty+COLUMNS")
                    v.evaluations += 1
                    if r.signal is not None or r.timed_out:
                        v.fail("C18/crash", "%s with --ui %s COLUMNS=%s (%s): signal/timeout" % (cmd[0], ui, cols, mode),
                               r.brief())
                        continue
                    if r.status != base.status:
                        v.fail("C18/ui-changes-status", "%s: exit %s with --ui %s COLUMNS=%s on a %s, %s without"
                               % (cmd[0], r.status, ui, cols, mode, base.status), r.brief())
                        continue
                    if cmd[0] == "cat" and base.status == 0:
                        try:
                            a = cat_content(base.stdout)
                        except ValueError:
                            # a catalogue of arbitrary bytes (hostile image, blank side taken for a disc): names with
                            # blanks cannot be told apart from the layout -- not judged
                            v.skipped = "baseline-cat-not-parseable"
                            continue
                        try:
                            b = cat_content(r.stdout)
                        except ValueError as ex:
                            v.fail("C18/cat-parse", "cat output with --ui %s COLUMNS=%s cannot be parsed although the "
                                   "baseline's can: %s" % (ui, cols, ex), r.brief())
                            continue
                        if a != b:
                            diff = [k for k in a if a[k] != b[k]]
                            v.fail("C18/ui-changes-content", "cat content differs in %s with --ui %s COLUMNS=%s on a %s"
                                   % (diff, ui, cols, mode), {"with": r.stdout[:500], "without": base.stdout[:500]})
                    elif r.stdout != base.stdout:
                        v.fail("C18/ui-changes-other-command", "%s output differs with --ui %s COLUMNS=%s on a %s"
                               % (cmd[0], ui, cols, mode), {"with": r.brief(), "without": base.brief()})
        return v


CHECK = C18()
