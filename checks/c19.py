"""C19 -- behaviour does not depend on whether assertions are compiled in."""
import os

from hypothesis import strategies as st

from checks import c07, c08
from vlib import disc, gen_basic, ref_basic as rb, runtool
from vlib.harness import CheckBase, Verdict

DFS_COMMANDS = c07.COMMANDS
GLOBALS = [["--ui", "acorn"], ["--ui", "watford"], ["--ui", "opus"], ["--verbose"], ["--show-config"], ["--dir", "B"],
           ["--dir", "$"], ["--drive", "0"], ["--drive", "2"], ["--drive", "1"], ["--drive-first"], ["--drive-physical"]]


@st.composite
def case_st(draw):
    which = draw(st.sampled_from(["dfs-valid", "dfs-valid", "dfs-hostile", "dfs-hostile", "basic-valid", "basic-hostile",
                                  "basic-nodialect", "dfs-cli"]))
    c = {"which": which, "seed": draw(st.integers(0, 10 ** 6))}
    if which == "dfs-cli":
        c["cli"] = draw(c07.cli_case())
    elif which.startswith("dfs"):
        # other global options on the line (any of them may guard or feed an assertion)
        c["globals"] = draw(st.lists(st.sampled_from(GLOBALS), max_size=3))
        c["gpos"] = draw(st.integers(0, 3))
        img = draw(c07.image_case())
        if which == "dfs-valid":
            img["muts"] = []
            img["gz"] = 0
        c["image"] = img
        c["cmds"] = draw(st.lists(st.integers(0, len(DFS_COMMANDS) - 1), min_size=2, max_size=4, unique=True))
    elif which == "basic-valid":
        c["prog"] = draw(gen_basic.program())
        c["listo"] = draw(st.integers(0, 7))
    elif which == "basic-nodialect":
        c["prog"] = draw(gen_basic.program(dialect=draw(st.sampled_from(["6502", "6502", "Z80", "ARM"]))))
        c["listo"] = draw(st.sampled_from([None, 0, 7]))
    else:
        c["cli"] = draw(c08.cli_case())
    return c


class C19(CheckBase):
    pid = "C19"
    level = "exploration"
    variants = ("dbg", "ndebug", "msan-basic")
    rule = ("the generators of C01-C03 (valid discs / programs) and of C07/C08 (structure-mutated images, hostile "
            "BASIC inputs and command lines) plus the command-line corner 'no --dialect'; dfs command lines carry 0-3 "
            "other global options (--ui, --verbose, --show-config, --dir, --drive, --drive-first/-physical) around "
            "--file, and C07's generated dfs command lines (odd --file arguments, hostile values) are run too; each "
            "case is run on the "
            "assertion-enabled default build and on the -DNDEBUG build: unless the assertion build dies with SIGABRT "
            "and 'Assertion' on stderr, stdout and exit status must be equal (a crash of the NDEBUG build where the "
            "default build exits normally is a violation); the MSan NDEBUG build of bbcbasic_to_text must be silent. "
            "Non-trivial: no --dialect, or an image that reaches FileSystem construction (exit 0 or a diagnostic "
            "other than 'cannot use image'), or a flux image")
    assumptions = ("both builds are produced from the same tree with gcc; -O1 vs -O2 differences would also show up "
                   "here and would be reported as violations",)
    min_nontrivial = {"quick": 150, "thorough": 1500}
    budget_s = {"quick": 35, "thorough": 900}

    def strategy(self, tier):
        return case_st()

    def examples(self, tier):
        return 5000 if tier == "quick" else 60000

    def sample(self, case):
        c = dict(case)
        if "image" in c:
            c["image"] = {k: case["image"][k] for k in ("ext", "variant", "gz")}
            c["image"]["mutations"] = [m["kind"] for m in case["image"]["muts"]]
        if "prog" in c:
            c["prog"] = {"dialect": c["prog"]["dialect"], "nlines": len(c["prog"]["lines"])}
        return c

    def _pair(self, v, ctx, tool, args, cwd, stdin=None, label=""):
        # the same argv[0] for both builds (usage messages print it)
        a = runtool.run([tool] + args, cwd, stdin=stdin, executable=ctx.tool("dbg", tool))
        b = runtool.run([tool] + args, cwd, stdin=stdin, executable=ctx.tool("ndebug", tool))
        v.evaluations += 2
        if a.timed_out and b.timed_out:
            v.skipped = "both-builds-time-out"          # C07's business
            return a, b
        if a.timed_out != b.timed_out:
            which, exe = ("NDEBUG", ctx.tool("ndebug", tool)) if b.timed_out else ("default", ctx.tool("dbg", tool))
            if runtool.confirm_timeout([tool] + args, cwd, stdin=stdin, executable=exe):
                v.fail("C19/one-build-hangs", "%s: the %s build does not terminate within 10 s, the other build exits %s"
                       % (label, which, a.status if b.timed_out else b.status), {"ndebug": b.brief(), "default": a.brief()})
            return a, b
        if a.assertion_failed():
            v.classes.append("assertion-stopped-default-build")
            return a, b
        if b.signal is not None and a.signal is None:
            v.fail("C19/ndebug-crash", "%s: the NDEBUG build dies with signal %d, the default build exits %s"
                   % (label, b.signal, a.status), {"ndebug": b.brief(), "default": a.brief()})
        elif a.signal is not None and b.signal is None:
            v.fail("C19/default-crash", "%s: the default build dies with signal %d (not an assertion), NDEBUG exits %s"
                   % (label, a.signal, b.status), {"ndebug": b.brief(), "default": a.brief()})
        elif a.status != b.status or a.stdout != b.stdout:
            v.fail("C19/builds-differ", "%s: exit %s / %d bytes with assertions, exit %s / %d bytes with NDEBUG"
                   % (label, a.status, len(a.stdout), b.status, len(b.stdout)), {"ndebug": b.brief(), "default": a.brief()})
        return a, b

    def judge(self, ctx, case):
        v = Verdict()
        which = case["which"]
        v.classes.append(which)
        with runtool.Sandbox("c19") as sb:
            if which == "dfs-cli":
                args, _ = c07.cli_materialise(case["cli"], sb, sb.mkdir("out"))
                args = [a.encode("latin-1") if any(ord(ch) > 127 for ch in a) else a for a in args]
                a, b = self._pair(v, ctx, "dfs", args, sb.path, label="dfs (generated command line)")
                if a.status == 0:
                    v.nontrivial = True
            elif which.startswith("dfs"):
                ic = case["image"]
                try:
                    data, bounds = c07.build_image(ic)
                except Exception as ex:
                    v.skipped = "generator-error:%s" % type(ex).__name__
                    return v
                data = bytes(c07.mutate(ic, data, bounds))
                name = "img." + ic["ext"]
                if ic["gz"]:
                    data = c07.compress_image(ic, data)
                    name += ".gz"
                img = sb.file(name, data)
                nm = "F"
                try:
                    e = disc.all_entries(ic["surface"]["volumes"][0])[0]
                    nm = ":0.%s.%s" % (chr(e["dir"]), e["name"].decode("latin-1"))
                except (IndexError, KeyError):
                    pass
                if ic["ext"] in ("hfe", "mfm"):
                    v.nontrivial = True
                for ci in case["cmds"]:
                    out = sb.mkdir("o%d" % ci)
                    cmd = [out if x == "OUT" else (nm if x == "NAME" else x) for x in DFS_COMMANDS[ci]]
                    gl = [["--file", img]]
                    for i, g in enumerate(case.get("globals") or []):
                        gl.insert((case.get("gpos", 0) + i) % (len(gl) + 1), g)
                    opts = [x for g in gl for x in g]
                    if len(gl) > 1:
                        v.classes.append("with-other-global-options")
                    a, b = self._pair(v, ctx, "dfs", opts + cmd, sb.path,
                                      label="dfs " + " ".join([x for x in opts if x != img] + cmd[:2]))
                    if a.status == 0 or (a.status is not None and b"cannot use image" not in a.stderr
                                         and b"not recognized" not in a.stderr):
                        v.nontrivial = True
                        v.classes.append("reached-filesystem")
            elif which in ("basic-valid", "basic-nodialect"):
                p = case["prog"]
                data = rb.serialise(p["dialect"], [(n, bytes(b)) for n, b in p["lines"]])
                path = sb.file("p.bbc", data)
                args = []
                if which == "basic-valid":
                    args += ["--dialect", p["dialect"]]
                else:
                    v.nontrivial = True
                if case["listo"] is not None:
                    args += ["--listo", str(case["listo"])]
                self._pair(v, ctx, "bbcbasic_to_text", args + [path], sb.path, label="bbcbasic_to_text " + " ".join(args))
                m = runtool.run([ctx.tool("msan-basic", "bbcbasic_to_text")] + args + [path], sb.path)
                v.evaluations += 1
                if m.sanitizer_report():
                    v.fail("C19/uninitialised", "MemorySanitizer report in the NDEBUG build (%s)" % " ".join(args), m.brief())
            else:
                cli = case["cli"]
                argv = []
                if cli["dialect"] is not None:
                    argv.append("--dialect=" + cli["dialect"])
                else:
                    v.nontrivial = True
                if cli["listo"] is not None:
                    argv.append("--listo=" + cli["listo"])
                argv += cli["extra"]
                for i, d in enumerate(cli["files"]):
                    argv.append(sb.file("in%d.bbc" % i, d))
                self._pair(v, ctx, "bbcbasic_to_text", argv, sb.path, label="bbcbasic_to_text (hostile)")
                m = runtool.run([ctx.tool("msan-basic", "bbcbasic_to_text")] + argv, sb.path)
                v.evaluations += 1
                if m.sanitizer_report():
                    v.fail("C19/uninitialised", "MemorySanitizer report in the NDEBUG build", m.brief())
        return v


CHECK = C19()
