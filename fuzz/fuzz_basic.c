/* libFuzzer target for bbcbasic_to_text (property C08).
 *
 * Input layout: byte 0 = mode/dialect selector, byte 1 = LISTO, rest = program
 * bytes.  Mode A (selector < 0x80): decode_file() on an fmemopen() stream.
 * Mode B: the bytes are written to a file and wrapped_main() is called with a
 * command line built from the selector (including "no --dialect at all").
 *
 * Oracle inside the target: the call returns; a failure result (false / exit 1)
 * is accompanied by text on stderr; exit status is 0 or 1.  ASan/UBSan/assert
 * turn memory errors, UB and failed assertions into crashes.
 */
#define _GNU_SOURCE
#include <stdint.h>
#include <stdio.h>
#include <stdlib.h>
#include <string.h>
#include <unistd.h>
#include <getopt.h>

#include "decoder.h"
#include "tokens.h"

int wrapped_main(int argc, char *argv[]);

static FILE *real_stderr;
static char tmpname[64];
static FILE *ntlog;

static const char *dialect_names[] = {"6502", "32000", "PDP11", "Z80", "8086", "ARM", "Windows", "SDL", "MacOSX", "Mac"};

static void die(const char *why, const uint8_t *data, size_t size)
{
  fprintf(real_stderr, "ORACLE-VIOLATION: %s (input %zu bytes)\n", why, size);
  fflush(real_stderr);
  (void)data;
  __builtin_trap();
}

int LLVMFuzzerInitialize(int *argc, char ***argv)
{
  (void)argc; (void)argv;
  real_stderr = fdopen(dup(2), "w");
  if (!freopen("/dev/null", "w", stdout))
    abort();
  snprintf(tmpname, sizeof tmpname, "/dev/shm/fuzz_basic_%d.bbc", (int)getpid());
  if (access("/dev/shm", W_OK) != 0)
    snprintf(tmpname, sizeof tmpname, "/tmp/fuzz_basic_%d.bbc", (int)getpid());
  const char *nt = getenv("VERIF_NTLOG");
  if (nt)
    ntlog = fopen(nt, "a");
  return 0;
}

int LLVMFuzzerTestOneInput(const uint8_t *data, size_t size)
{
  if (size < 2)
    return 0;
  const uint8_t sel = data[0];
  const uint8_t lo = data[1];
  const uint8_t *prog = data + 2;
  const size_t plen = size - 2;

  char *errbuf = NULL;
  size_t errlen = 0;
  FILE *saved = stderr;
  FILE *mem = open_memstream(&errbuf, &errlen);
  if (!mem)
    return 0;
  stderr = mem;
  int failed = 0;
  int status = 0;

  if (sel < 0x80)
    {
      unsigned d = sel % NUM_DIALECTS;
      struct decoder *dec = new_decoder((enum Dialect)d, lo & 7);
      FILE *f = plen ? fmemopen((void*)prog, plen, "rb") : fopen("/dev/null", "rb");
      if (dec && f)
	{
	  failed = !decode_file(dec, "fuzz-input", f);
	}
      if (f) fclose(f);
      destroy_decoder(dec);
    }
  else
    {
      FILE *t = fopen(tmpname, "wb");
      if (t)
	{
	  fwrite(prog, 1, plen, t);
	  fclose(t);
	}
      char listo_arg[32];
      char dialect_arg[48];
      char *argv[8];
      int argc = 0;
      argv[argc++] = (char*)"bbcbasic_to_text";
      unsigned which = (sel & 0x7F) % 12;
      if (which < 10)
	{
	  snprintf(dialect_arg, sizeof dialect_arg, "--dialect=%s", dialect_names[which]);
	  argv[argc++] = dialect_arg;
	}
      else if (which == 11)
	{
	  argv[argc++] = (char*)"--dialect=bogus";
	}
      /* which == 10: no --dialect option at all */
      if (lo < 0x80)
	{
	  snprintf(listo_arg, sizeof listo_arg, "--listo=%d", (int)(lo % 10) - 1);
	  argv[argc++] = listo_arg;
	}
      argv[argc++] = tmpname;
      if (lo & 0x40)
	argv[argc++] = tmpname;      /* the same file twice */
      argv[argc] = NULL;
      optind = 0;
      status = wrapped_main(argc, argv);
      failed = status != 0;
    }
  fflush(stdout);
  fflush(mem);
  stderr = saved;
  fclose(mem);
  if (status != 0 && status != 1)
    die("exit status other than 0 or 1", data, size);
  if (failed && errlen == 0)
    die("failure without a diagnostic on stderr", data, size);
  if (ntlog && (!failed || (errbuf && (strstr(errbuf, "token") || strstr(errbuf, "end-of-line") || strstr(errbuf, "crunched")))))
    {
      /* non-trivial: reached decode_line (a line was printed or a token-level diagnostic) */
      fputs("NT\n", ntlog);
      fflush(ntlog);
    }
  free(errbuf);
  return 0;
}
