// libFuzzer target for the whole dfs program (property C07).
//
// main() of dfs/main.cc is compiled with -Dmain=dfs_main (no source hook) and
// called in-process.  The input is decoded with FuzzedDataProvider: trailing
// bytes choose container extension, gzip mode, command, --verbose and small
// integer arguments; the remaining bytes are the image file.
//
// Oracle inside the target: dfs_main() returns (no exception escapes -- in the
// real program that is std::terminate), status is 0, 1 or 2, and a non-zero
// status comes with text on std::cerr.  libFuzzer's -timeout / -malloc_limit_mb
// and ASan/UBSan/assert turn unbounded loops, header-driven allocations,
// memory errors, UB and failed assertions into crashes.
#include <fuzzer/FuzzedDataProvider.h>
#include <getopt.h>
#include <stdint.h>
#include <stdio.h>
#include <stdlib.h>
#include <string.h>
#include <sys/stat.h>
#include <unistd.h>
#include <zlib.h>
#include <dirent.h>

#include <iostream>
#include <locale>
#include <sstream>
#include <string>
#include <vector>

#include "dfs.h"

int dfs_main(int argc, char *argv[]);

namespace
{
std::string workdir;
FILE *ntlog;
const char *exts[] = {"ssd", "sdd", "dsd", "ddd", "mmb", "hfe", "mfm"};

class NullBuf : public std::streambuf
{
  int overflow(int c) override { return c; }
  std::streamsize xsputn(const char *, std::streamsize n) override { return n; }
};
NullBuf nullbuf;

void clean_dir(const std::string& d)
{
  DIR *dp = opendir(d.c_str());
  if (!dp)
    return;
  while (struct dirent *e = readdir(dp))
    {
      if (!strcmp(e->d_name, ".") || !strcmp(e->d_name, ".."))
	continue;
      std::string p = d + "/" + e->d_name;
      unlink(p.c_str());
    }
  closedir(dp);
}

void die(const char *why)
{
  fprintf(stderr, "ORACLE-VIOLATION: %s\n", why);
  fflush(stderr);
  __builtin_trap();
}

std::vector<uint8_t> gzip_bytes(const std::vector<uint8_t>& in)
{
  z_stream zs;
  memset(&zs, 0, sizeof zs);
  deflateInit2(&zs, 1, Z_DEFLATED, 15 + 16, 8, Z_DEFAULT_STRATEGY);
  std::vector<uint8_t> out(deflateBound(&zs, in.size()) + 64);
  zs.next_in = const_cast<Bytef*>(in.data());
  zs.avail_in = static_cast<uInt>(in.size());
  zs.next_out = out.data();
  zs.avail_out = static_cast<uInt>(out.size());
  deflate(&zs, Z_FINISH);
  out.resize(zs.total_out);
  deflateEnd(&zs);
  return out;
}
}  // namespace

extern "C" int LLVMFuzzerInitialize(int *, char ***)
{
  char tmpl[64];
  snprintf(tmpl, sizeof tmpl, "%s/fuzz_dfs_XXXXXX", access("/dev/shm", W_OK) == 0 ? "/dev/shm" : "/tmp");
  if (!mkdtemp(tmpl))
    abort();
  workdir = tmpl;
  mkdir((workdir + "/out").c_str(), 0700);
  const char *nt = getenv("VERIF_NTLOG");
  if (nt)
    ntlog = fopen(nt, "a");
  return 0;
}

extern "C" int LLVMFuzzerTestOneInput(const uint8_t *data, size_t size)
{
  if (size < 8)
    return 0;
  FuzzedDataProvider fdp(data, size);
  // integrals are taken from the END of the input
  const unsigned ext = fdp.ConsumeIntegralInRange<unsigned>(0, 6);
  const unsigned gzmode = fdp.ConsumeIntegralInRange<unsigned>(0, 5);   // 0-3 plain, 4 compressed by us, 5 raw named .gz
  const unsigned cmd = fdp.ConsumeIntegralInRange<unsigned>(0, 15);
  const bool verbose = fdp.ConsumeIntegralInRange<unsigned>(0, 7) == 0;
  const unsigned a1 = fdp.ConsumeIntegralInRange<unsigned>(0, 3);
  const unsigned a2 = fdp.ConsumeIntegralInRange<unsigned>(0, 90);
  const unsigned a3 = fdp.ConsumeIntegralInRange<unsigned>(0, 20);
  std::vector<uint8_t> file = fdp.ConsumeRemainingBytes<uint8_t>();

  std::string name = workdir + "/img." + exts[ext];
  if (gzmode >= 4)
    name += ".gz";
  if (gzmode == 4)
    file = gzip_bytes(file);
  {
    FILE *f = fopen(name.c_str(), "wb");
    if (!f)
      return 0;
    if (!file.empty())
      fwrite(file.data(), 1, file.size(), f);
    fclose(f);
  }

  // a file name taken from the first catalogue entry (if this is a sector dump)
  std::string first_name = "F";
  if (gzmode < 4 && file.size() >= 16)
    {
      std::string n;
      for (int i = 8; i < 15; ++i)
	{
	  char c = static_cast<char>(file[i] & 0x7F);
	  if (c <= ' ' || c == 0x7F)
	    break;
	  n.push_back(c);
	}
      if (!n.empty())
	first_name = std::string(":0.") + static_cast<char>((file[15] & 0x7F) > ' ' ? (file[15] & 0x7F) : '$') + "." + n;
    }

  std::vector<std::string> args = {"dfs"};
  if (verbose)
    args.push_back("--verbose");
  if (a3 == 20)
    args.push_back("--show-config");
  if (a3 == 19)
    args.push_back("--drive-first");
  args.push_back("--file");
  args.push_back(name);
  const std::string outdir = workdir + "/out";
  const std::string drive = std::to_string(a1);
  bool uses_out = false;
  switch (cmd)
    {
    case 0: args.push_back("cat"); break;
    case 1: args.push_back("info"); args.push_back("#.*"); break;
    case 2: args.push_back("type"); args.push_back("--binary"); args.push_back(first_name); break;
    case 3: args.push_back("list"); args.push_back(first_name); break;
    case 4: args.push_back("dump"); args.push_back(first_name); break;
    case 5: args.push_back("dump-sector"); args.push_back(drive); args.push_back(std::to_string(a2)); args.push_back(std::to_string(a3)); break;
    case 6: args.push_back("free"); break;
    case 7: args.push_back("space"); break;
    case 8: args.push_back("sector-map"); break;
    case 9: args.push_back("show-titles"); break;
    case 10: args.push_back("extract-files"); args.push_back(outdir); uses_out = true; break;
    case 11: args.push_back("extract-unused"); args.push_back(outdir); uses_out = true; break;
    case 12: args.push_back("cat"); args.push_back(drive); break;
    case 13: args.push_back("show-titles"); args.push_back(drive); break;
    case 14: args.push_back("space"); args.push_back(drive + "B"); break;
    default: args.push_back("sector-map"); args.push_back(drive); break;
    }
  std::vector<char*> argv;
  for (auto& s : args)
    argv.push_back(const_cast<char*>(s.c_str()));
  argv.push_back(nullptr);

  // reset global state that a fresh process would not have
  optind = 0;
  DFS::verbose = false;
  std::ostringstream err;
  std::streambuf *old_out = std::cout.rdbuf(&nullbuf);
  std::streambuf *old_err = std::cerr.rdbuf(err.rdbuf());
  const auto out_flags = std::cout.flags();
  const auto err_flags = std::cerr.flags();
  int rc = -1;
  bool threw = false;
  try
    {
      rc = dfs_main(static_cast<int>(args.size()), argv.data());
    }
  catch (...)
    {
      threw = true;
    }
  std::cout.clear();
  std::cerr.clear();
  std::cout.flags(out_flags);
  std::cerr.flags(err_flags);
  std::cout.fill(' ');
  std::cerr.fill(' ');
  std::cout.imbue(std::locale::classic());
  std::cout.rdbuf(old_out);
  std::cerr.rdbuf(old_err);
  if (uses_out)
    clean_dir(outdir);
  if (threw)
    die("an exception escaped from main() (std::terminate in the real program)");
  if (rc != 0 && rc != 1 && rc != 2)
    die("exit status other than 0, 1 or 2");
  if (rc != 0 && err.str().empty())
    die("non-zero exit status without a diagnostic on standard error");
  if (ntlog && rc == 0)
    {
      fputs("NT\n", ntlog);
      fflush(ntlog);
    }
  return 0;
}
