// libFuzzer target for the FM / MFM track decoders (property C06, decoder level).
//
// Input: byte 0 selects FM (even) or MFM (odd); the rest are raw cells, LSB
// first in each byte (the order Track::BitStream uses).
//
// Oracle inside the target (brute-force reference, written from the IBM 3740 /
// System 34 formats, independent of track_fm.cc / track_mfm.cc):
//   * every returned sector has an address and size that occur in some ID
//     field whose CRC-16/CCITT is correct, and data that occur in some data
//     field whose CRC is correct ("lenient" fields: mark pattern + CRC over the
//     data bits; clock bits and sync run not required) -- so a damaged field is
//     never returned as good;
//   * pairing: there is such an ID field i and data field j with i before j and
//     no *strict* ID field (proper sync run, all clock bits legal) carrying a
//     different address between them -- so a sector never gets the data that
//     was recorded under another, perfectly readable, address.
#include <stdint.h>
#include <stdio.h>
#include <stdlib.h>
#include <string.h>
#include <unistd.h>

#include <algorithm>
#include <iostream>
#include <string>
#include <vector>

#include "crc.h"
#include "track.h"

extern "C" size_t LLVMFuzzerMutate(uint8_t *Data, size_t Size, size_t MaxSize);

namespace
{
FILE *ntlog;

struct IdField { size_t pos; uint8_t c, h, r, n; bool strict; };
struct DataField { size_t pos; size_t size; std::vector<uint8_t> data; bool strict; bool deleted; };

inline int cell(const std::vector<uint8_t>& d, size_t k)
{
  return (d[k >> 3] >> (k & 7)) & 1;
}

uint16_t crc_ccitt(const uint8_t *p, size_t n, uint16_t crc = 0xFFFF)
{
  for (size_t i = 0; i < n; ++i)
    {
      crc ^= static_cast<uint16_t>(p[i] << 8);
      for (int b = 0; b < 8; ++b)
	crc = (crc & 0x8000) ? static_cast<uint16_t>((crc << 1) ^ 0x1021) : static_cast<uint16_t>(crc << 1);
    }
  return crc;
}

// read one encoded byte (16 cells) at cell position p: clock bits in *clk, data bits returned
bool get_byte(const std::vector<uint8_t>& d, size_t ncells, size_t p, uint8_t *data, uint8_t *clk)
{
  if (p + 16 > ncells)
    return false;
  unsigned c = 0, v = 0;
  for (int i = 0; i < 8; ++i)
    {
      c = (c << 1) | cell(d, p + 2 * i);
      v = (v << 1) | cell(d, p + 2 * i + 1);
    }
  *data = static_cast<uint8_t>(v);
  *clk = static_cast<uint8_t>(c);
  return true;
}

uint64_t window(const std::vector<uint8_t>& d, size_t p, int n)
{
  uint64_t w = 0;
  for (int i = 0; i < n; ++i)
    w = (w << 1) | cell(d, p + i);
  return w;
}

int size_from_code(uint8_t n)
{
  switch (n) { case 0: return 128; case 1: return 256; case 2: return 512; case 3: return 1024; default: return -1; }
}

void scan_fm(const std::vector<uint8_t>& d, size_t ncells, std::vector<IdField>& ids, std::vector<DataField>& datas)
{
  uint64_t roll = 0;
  for (size_t e = 0; e < ncells; ++e)
    {
      roll = ((roll << 1) | static_cast<uint64_t>(cell(d, e))) & 0xFFFFu;
      if (e < 15)
	continue;
      const size_t p = e - 15;
      const uint64_t w = roll;
      if (w != 0xF57E && w != 0xF56F && w != 0xF56A)
	continue;
      if (w == 0xF57E)
	{
	  uint8_t f[7] = {0xFE};
	  bool ok = true, clocks = true;
	  for (int i = 0; i < 6 && ok; ++i)
	    {
	      uint8_t v, c;
	      ok = get_byte(d, ncells, p + 16 * (i + 1), &v, &c);
	      f[i + 1] = v;
	      if (c != 0xFF) clocks = false;
	    }
	  if (!ok || crc_ccitt(f, 7) != 0 || size_from_code(f[4]) < 0)
	    continue;
	  bool sync = p >= 32 && window(d, p - 32, 32) == 0xAAAAAAAAu;
	  ids.push_back(IdField{p, f[1], f[2], f[3], f[4], sync && clocks});
	}
      else if (w == 0xF56F || w == 0xF56A)
	{
	  for (int code = 0; code < 4; ++code)
	    {
	      const size_t sz = static_cast<size_t>(size_from_code(static_cast<uint8_t>(code)));
	      if (p + 16 * (sz + 3) > ncells)
		continue;
	      std::vector<uint8_t> f(sz + 3);
	      f[0] = (w == 0xF56F) ? 0xFB : 0xF8;
	      bool clocks = true;
	      for (size_t i = 0; i < sz + 2; ++i)
		{
		  uint8_t v, c;
		  get_byte(d, ncells, p + 16 * (i + 1), &v, &c);
		  f[i + 1] = v;
		  if (c != 0xFF) clocks = false;
		}
	      if (crc_ccitt(f.data(), f.size()) != 0)
		continue;
	      bool sync = p >= 32 && window(d, p - 32, 32) == 0xAAAAAAAAu;
	      DataField df{p, sz, std::vector<uint8_t>(f.begin() + 1, f.begin() + 1 + sz), sync && clocks, w == 0xF56A};
	      datas.push_back(df);
	    }
	}
    }
}

bool mfm_bytes(const std::vector<uint8_t>& d, size_t ncells, size_t p, size_t n, std::vector<uint8_t>& out, bool *clocks_ok)
{
  if (p + 16 * n > ncells || p == 0)
    return false;
  int prev = cell(d, p - 1);
  *clocks_ok = true;
  out.resize(n);
  for (size_t i = 0; i < n; ++i)
    {
      unsigned v = 0;
      for (int b = 0; b < 8; ++b)
	{
	  const int c = cell(d, p + 16 * i + 2 * b);
	  const int dt = cell(d, p + 16 * i + 2 * b + 1);
	  const int expect = (prev || dt) ? 0 : 1;
	  if (c != expect) *clocks_ok = false;
	  prev = dt;
	  v = (v << 1) | dt;
	}
      out[i] = static_cast<uint8_t>(v);
    }
  return true;
}

void scan_mfm(const std::vector<uint8_t>& d, size_t ncells, std::vector<IdField>& ids, std::vector<DataField>& datas)
{
  static const uint8_t a1[3] = {0xA1, 0xA1, 0xA1};
  uint64_t roll = 0;
  for (size_t e = 0; e < ncells; ++e)
    {
      roll = ((roll << 1) | static_cast<uint64_t>(cell(d, e))) & 0xFFFFFFFFFFFFull;
      if (e < 47 || roll != 0x448944894489ull)
	continue;
      const size_t p = e - 47;
      const size_t body = p + 48;
      const bool sync = p >= 16 && window(d, p - 16, 16) == 0xAAAA;
      // ID field?
      {
	std::vector<uint8_t> f;
	bool clocks;
	if (mfm_bytes(d, ncells, body, 7, f, &clocks) && f[0] == 0xFE && size_from_code(f[4]) >= 0)
	  {
	    uint16_t c = crc_ccitt(a1, 3);
	    c = crc_ccitt(f.data(), 7, c);
	    if (c == 0)
	      ids.push_back(IdField{p, f[1], f[2], f[3], f[4], sync && clocks});
	  }
      }
      for (int code = 0; code < 4; ++code)
	{
	  const size_t sz = static_cast<size_t>(size_from_code(static_cast<uint8_t>(code)));
	  std::vector<uint8_t> f;
	  bool clocks;
	  if (!mfm_bytes(d, ncells, body, sz + 3, f, &clocks))
	    continue;
	  if (f[0] != 0xFB && f[0] != 0xF8)
	    continue;
	  uint16_t c = crc_ccitt(a1, 3);
	  c = crc_ccitt(f.data(), f.size(), c);
	  if (c != 0)
	    continue;
	  datas.push_back(DataField{p, sz, std::vector<uint8_t>(f.begin() + 1, f.begin() + 1 + sz), sync && clocks, f[0] == 0xF8});
	}
    }
}

void violation(const char *why, const Track::Sector& s)
{
  fprintf(stderr, "ORACLE-VIOLATION: %s: sector (c=%u,h=%u,r=%u) size %zu\n", why,
	  s.address.cylinder, s.address.head, s.address.record, s.data.size());
  fflush(stderr);
  __builtin_trap();
}

}  // namespace

extern "C" int LLVMFuzzerInitialize(int *, char ***)
{
  const char *nt = getenv("VERIF_NTLOG");
  if (nt)
    ntlog = fopen(nt, "a");
  // the FM decoder reports dropped control records on std::cerr unconditionally
  std::cerr.rdbuf(nullptr);
  return 0;
}

extern "C" int LLVMFuzzerTestOneInput(const uint8_t *data, size_t size)
{
  if (size < 2)
    return 0;
  const bool fm = (data[0] & 1) == 0;
  std::vector<uint8_t> cells(data + 1, data + size);
  const size_t ncells = cells.size() * 8;
  Track::BitStream bits(cells, 0u, 1u);
  // the decoders print diagnostics about control records to stderr: silence them
  static int devnull = -1;
  std::vector<Track::Sector> got = fm ? Track::decode_fm_track(bits, false) : Track::decode_mfm_track(bits, false);
  (void)devnull;

  std::vector<IdField> ids;
  std::vector<DataField> datas;
  if (fm)
    scan_fm(cells, ncells, ids, datas);
  else
    scan_mfm(cells, ncells, ids, datas);
  if (ntlog && !datas.empty())
    {
      fputs("NT\n", ntlog);
      fflush(ntlog);
    }
  for (const Track::Sector& s : got)
    {
      bool id_ok = false, data_ok = false, pair_ok = false;
      for (const IdField& i : ids)
	{
	  if (i.c != s.address.cylinder || i.h != s.address.head || i.r != s.address.record)
	    continue;
	  if (static_cast<size_t>(size_from_code(i.n)) != s.data.size())
	    continue;
	  id_ok = true;
	  for (const DataField& j : datas)
	    {
	      // (a control record with a correct CRC still satisfies the property: only damaged or misaddressed
	      // data is forbidden)
	      if (j.size != s.data.size() || j.data != s.data)
		continue;
	      data_ok = true;
	      if (j.pos <= i.pos)
		continue;
	      bool intervening = false;
	      for (const IdField& k : ids)
		{
		  if (!k.strict || k.pos <= i.pos || k.pos >= j.pos)
		    continue;
		  if (k.c != i.c || k.h != i.h || k.r != i.r)
		    {
		      intervening = true;
		      break;
		    }
		}
	      if (!intervening)
		pair_ok = true;
	    }
	}
      if (!id_ok)
	violation("returned sector has no CRC-valid ID field with that address and size", s);
      // data_ok may be false only because no ID matched; recompute independently
      if (!data_ok)
	{
	  for (const DataField& j : datas)
	    if (j.data == s.data)
	      data_ok = true;
	}
      if (!data_ok)
	violation("returned sector data does not occur in any CRC-valid data field", s);
      if (!pair_ok)
	violation("returned sector pairs an ID with a data field recorded after another readable ID", s);
    }
  return 0;
}

// Bit-granular mutations (slips and zeroed runs) on top of libFuzzer's own.
extern "C" size_t LLVMFuzzerCustomMutator(uint8_t *data, size_t size, size_t max_size, unsigned int seed)
{
  uint32_t r = seed * 2654435761u + 12345u;
  auto next = [&r]() { r = r * 1664525u + 1013904223u; return r >> 8; };
  const unsigned choice = next() % 5;
  if (size < 4 || choice >= 3)
    return LLVMFuzzerMutate(data, size, max_size);
  const size_t nbits = (size - 1) * 8;
  std::vector<uint8_t> bits(nbits);
  for (size_t k = 0; k < nbits; ++k)
    bits[k] = (data[1 + (k >> 3)] >> (k & 7)) & 1;
  const size_t pos = next() % nbits;
  const size_t n = 1 + next() % 15;
  if (choice == 2)
    {
      // damage ONE data cell of an address mark (FM: F57E / F56F / F56A; MFM: the byte after three 4489 syncs), or of
      // the field behind it: a mark read with one wrong bit must not be taken for a good one
      std::vector<size_t> marks;
      uint32_t w = 0;
      for (size_t k = 0; k < nbits; ++k)
	{
	  w = ((w << 1) | bits[k]) & 0xFFFFu;
	  if (k >= 15 && (w == 0xF57E || w == 0xF56F || w == 0xF56A))
	    marks.push_back(k - 15);
	  else if (k >= 15 && w == 0x4489 && k + 16 < nbits)
	    marks.push_back(k + 1);
	}
      if (marks.empty())
	return LLVMFuzzerMutate(data, size, max_size);
      const size_t m = marks[next() % marks.size()];
      size_t cell;
      switch (next() % 4)
	{
	case 0: cell = m + 15; break;                       // data bit 0 of the mark
	case 1: cell = m + 13; break;                       // data bit 1
	case 2: cell = m + 1 + 2 * (next() % 8); break;     // any data bit of the mark
	default: cell = m + 16 + 1 + 2 * (next() % (8 * 6)); break;  // a data bit of the six bytes behind it
	}
      if (cell < nbits)
	bits[cell] ^= 1;
    }
  else if (choice == 0)
    {
      if (next() & 1)
	bits.insert(bits.begin() + pos, n, static_cast<uint8_t>(next() & 1));   // slip: cells inserted
      else
	bits.erase(bits.begin() + pos, bits.begin() + std::min(nbits, pos + n));  // slip: cells lost
    }
  else
    {
      const size_t run = 8 + next() % 400;
      for (size_t k = pos; k < std::min(nbits, pos + run); ++k)
	bits[k] = 0;                                                          // drop-out
    }
  size_t newsize = 1 + (bits.size() + 7) / 8;
  if (newsize > max_size)
    newsize = max_size;
  memset(data + 1, 0, newsize - 1);
  for (size_t k = 0; k < bits.size() && (1 + (k >> 3)) < newsize; ++k)
    if (bits[k])
      data[1 + (k >> 3)] |= static_cast<uint8_t>(1u << (k & 7));
  return newsize;
}
