#!/bin/sh
# Offline setup: verify the tools are present and pre-build the variants for
# the current /repo tree.  Nothing is downloaded.
here=$(cd "$(dirname "$0")" && pwd)
cd "$here" || exit 2
for t in python3-vt clang clang++ gcc g++ cmake ninja; do
  command -v $t >/dev/null 2>&1 || { echo "missing tool: $t"; exit 2; }
done
python3-vt -c 'import hypothesis, jsonschema' || exit 2
PYTHONPATH="$here" python3-vt vlib/build.py dbg asan ndebug msan-basic fuzz || exit 2
echo setup ok
