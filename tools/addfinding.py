#!/usr/bin/env python3
"""usage: addfinding.py PROP KEY STATUS COMMIT REPLAY 'what failed'"""
import json, sys
p = '/verif/known_findings.json'
d = json.load(open(p))
prop, key, status, commit, replay, what = sys.argv[1:7]
e = {"property": prop, "key": key, "status": status}
if status == "fixed":
    e["commit"] = commit
    e["entry"] = "fixed: property=%s %s %s" % (prop, commit, what)
else:
    e["what"] = what
if replay != "-":
    e["replay"] = replay
d["findings"].append(e)
json.dump(d, open(p, 'w'), indent=1)
print(e)
