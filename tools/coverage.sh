#!/bin/sh
# Development aid: which lines of /repo do the generated cases of the quick tiers reach?
# Runs each check's Hypothesis phase against a gcov build (-O0 --coverage) for a short budget and prints
# per-file line coverage plus the uncovered lines to coverage/<file>.gcov.  Not a registered check.
#   tools/coverage.sh [budget_s] [ID...]
cd "$(dirname "$0")/.." || exit 2
budget=${1:-25}; [ $# -gt 0 ] && shift
ids=${*:-C01 C02 C03 C04 C05 C06 C07 C08 C09 C10 C11 C12 C13 C14 C15 C16 C17 C18 C19}
bdir=$(python3-vt -c 'from vlib import build; print(build.build("cov"))') || exit 2
find "$bdir" -name '*.gcda' -delete
for id in $ids; do
  VERIF_COVERAGE=1 VERIF_BUDGET_S=$budget ./check $id --tier quick --no-evidence 2>&1 | grep -E "tier=quick|VIOLATION|HARNESS" | cut -c1-160
done
out=/verif/coverage; rm -rf "$out"; mkdir -p "$out"
cd "$out" || exit 2
find "$bdir" -name '*.gcda' | while read -r f; do
  gcov -b -c -o "$(dirname "$f")" "$f" >/dev/null 2>&1
done
for g in *.gcov; do
  case "$g" in *.h.gcov|*.cc.gcov|*.c.gcov) ;; *) continue;; esac
  src=$(sed -n '1s/.*Source://p' "$g")
  case "$src" in /usr/*|*_build*) rm -f "$g"; continue;; esac
  tot=$(grep -cE '^ *([0-9]+\*?|#####):' "$g"); miss=$(grep -cE '^ *#####:' "$g")
  [ "$tot" -gt 0 ] && echo "$(( (tot-miss)*100/tot ))% $((tot-miss))/$tot $g"
done | sort -n
