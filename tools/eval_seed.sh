#!/bin/sh
# usage: eval_seed.sh <PROP-ID> <worktree> <seed-name>
# Confirms a seeded change (build, suite, demo), stores it under /verif/seeded/,
# then applies it to /repo, runs the quick check and undoes it.
set -u
id=$1; wt=$2; name=$3
dst=/verif/seeded/$name
mkdir -p "$dst"
cp "$wt/seeded/patch.diff" "$wt/seeded/demo.sh" "$dst/" || exit 2
[ -f "$wt/seeded/notes.md" ] && cp "$wt/seeded/notes.md" "$dst/"
echo "== 1. build with the change and run the repository's suite"
( cmake -G Ninja -S "$wt" -B "$wt/_build" >/dev/null && cmake --build "$wt/_build" -j8 >/dev/null 2>&1 ) || { echo BUILD-FAILED; exit 2; }
suite=$(ctest --test-dir "$wt/_build" -j8 2>&1 | grep -E "tests passed|tests failed")
echo "$suite"
echo "== 2. demo on the changed build (must fail) and on the base build (must pass)"
( cd "$dst" && timeout 120 sh demo.sh "$wt/_build" >/dev/null 2>&1 ); d1=$?
( cd "$dst" && timeout 120 sh demo.sh /tmp/wt-base/_build >/dev/null 2>&1 ); d0=$?
echo "demo with change: exit $d1 ; demo on base: exit $d0"
echo "== 3. quick check against the change"
# the check is pointed at the worktree (which is /repo's HEAD + the change); /repo itself is not touched,
# so that background sweeps on /repo are not disturbed.  Equivalent to: git -C /repo apply; check; checkout.
git -C /repo apply --check "$dst/patch.diff" || { echo "PATCH-DOES-NOT-APPLY"; exit 2; }
out=$(cd /verif && VERIF_REPO="$wt" ./check "$id" --tier quick --no-evidence 2>&1); rc=$?
for f in /verif/replays/$id/found-*; do [ -d "$f" ] && { mkdir -p "$dst/found"; mv "$f" "$dst/found/"; }; done
echo "$out" | grep -E "VIOLATION|failure key|tier=|INCONCLUSIVE|HARNESS" | cut -c1-260 | head -8
echo "check exit: $rc"
python3 - "$id" "$name" "$suite" "$d1" "$d0" "$rc" <<'PY'
import json, sys
id, name, suite, d1, d0, rc = sys.argv[1:7]
meta = {"property": id, "name": name, "suite_with_change": suite.strip(), "demo_exit_with_change": int(d1),
        "demo_exit_on_base": int(d0), "quick_check_exit_with_change": int(rc),
        "caught_by_quick_check": int(rc) == 1,
        "what_i_ran": ["cmake+ninja build of the worktree with the change", "ctest -j8 in that build",
                       "sh demo.sh <changed build>", "sh demo.sh <base build of HEAD>",
                       "VERIF_REPO=<worktree = /repo HEAD + patch.diff> ./check %s --tier quick (same as applying the patch to /repo)" % id]}
try:
    meta["needs_to_manifest"] = open('/verif/seeded/%s/notes.md' % name).read()[:1500]
except OSError:
    pass
json.dump(meta, open('/verif/seeded/%s/meta.json' % name, 'w'), indent=1)
PY
