#!/bin/sh
# usage: eval_seed.sh <PROP-ID> <dir-with-seeded-files-or-worktree> <seed-name>
# Confirms a seeded change against the CURRENT /repo HEAD: a fresh worktree of HEAD gets patch.diff applied, is built,
# the repository's suite and the demo are run (demo also on a base build of HEAD), then the quick check is pointed at
# that worktree (VERIF_REPO) -- equivalent to `git -C /repo apply`, check, `git -C /repo checkout -- .`, but /repo is
# never touched so that background runs on /repo are not disturbed.
set -u
id=$1; src=$2; name=$3
[ -d "$src/seeded" ] && src="$src/seeded"
dst=/verif/seeded/$name
mkdir -p "$dst"
for f in patch.diff demo.sh notes.md; do [ -f "$src/$f" ] && [ "$src" != "$dst" ] && cp "$src/$f" "$dst/"; done
head=$(git -C /repo rev-parse --short HEAD)
wt=/tmp/evalwt-$name
git -C /repo worktree remove --force "$wt" >/dev/null 2>&1
git -C /repo worktree add -q --detach "$wt" HEAD || exit 2
trap 'git -C /repo worktree remove --force "$wt" >/dev/null 2>&1' EXIT
git -C "$wt" apply "$dst/patch.diff" || { echo "PATCH-DOES-NOT-APPLY to $head"; exit 2; }
# base build of HEAD
if [ "$(git -C /tmp/wt-base rev-parse --short HEAD 2>/dev/null)" != "$head" ]; then
  git -C /repo worktree remove --force /tmp/wt-base >/dev/null 2>&1
  git -C /repo worktree add -q --detach /tmp/wt-base HEAD
  cmake -G Ninja -S /tmp/wt-base -B /tmp/wt-base/_build >/dev/null && cmake --build /tmp/wt-base/_build -j8 >/dev/null 2>&1
fi
echo "== 1. build HEAD($head)+change and run the repository's suite"
( cmake -G Ninja -S "$wt" -B "$wt/_build" >/dev/null && cmake --build "$wt/_build" -j8 >/dev/null 2>&1 ) || { echo BUILD-FAILED; exit 2; }
suite=$(ctest --test-dir "$wt/_build" -j8 2>&1 | grep -E "tests passed|tests failed")
echo "$suite"
echo "== 2. demo on the changed build (must fail) and on the base build (must pass)"
( cd "$dst" && timeout 300 sh demo.sh "$wt/_build" >/dev/null 2>&1 ); d1=$?
( cd "$dst" && timeout 300 sh demo.sh /tmp/wt-base/_build >/dev/null 2>&1 ); d0=$?
echo "demo with change: exit $d1 ; demo on base: exit $d0"
echo "== 3. quick check against the change"
out=$(cd /verif && VERIF_REPO="$wt" ./check "$id" --tier quick --no-evidence 2>&1); rc=$?
for f in /verif/replays/$id/found-*; do [ -d "$f" ] && { mkdir -p "$dst/found"; rm -rf "$dst/found/$(basename $f)"; mv "$f" "$dst/found/"; }; done
echo "$out" | grep -E "VIOLATION|failure key|tier=|INCONCLUSIVE|HARNESS" | cut -c1-260 | head -8
echo "check exit: $rc"
python3 - "$id" "$name" "$suite" "$d1" "$d0" "$rc" "$head" <<'PY'
import json, sys, os
id, name, suite, d1, d0, rc, head = sys.argv[1:8]
p = '/verif/seeded/%s/meta.json' % name
old = json.load(open(p)) if os.path.exists(p) else {}
meta = {"property": id, "name": name, "evaluated_against_repo_head": head, "suite_with_change": suite.strip(),
        "demo_exit_with_change": int(d1), "demo_exit_on_base": int(d0), "quick_check_exit_with_change": int(rc),
        "caught_by_quick_check": int(rc) == 1,
        "what_i_ran": ["fresh worktree of /repo HEAD + patch.diff, cmake+ninja build", "ctest -j8 in that build",
                       "sh demo.sh <changed build>", "sh demo.sh <base build of HEAD>",
                       "VERIF_REPO=<that worktree> ./check %s --tier quick (same as applying the patch to /repo)" % id]}
if old.get("history"):
    meta["history"] = old["history"]
try:
    meta["needs_to_manifest"] = open('/verif/seeded/%s/notes.md' % name).read()[:1500]
except OSError:
    pass
json.dump(meta, open(p, 'w'), indent=1)
PY
