#!/usr/bin/env python3
"""For every 'fixed' entry of known_findings.json: reverse-apply the fix commit
to /repo's working tree, run the recorded replay (must report a VIOLATION),
restore the tree, and run it again (must pass).  Development aid."""
import json, subprocess, sys
d = json.load(open('/verif/known_findings.json'))
only = sys.argv[1:]
ok = True
for f in d['findings']:
    if f.get('status') != 'fixed' or not f.get('replay'):
        continue
    if only and f['property'] not in only:
        continue
    commit, pid, replay = f['commit'], f['property'], f['replay']
    patch = subprocess.run(['git', '-C', '/repo', 'diff', commit + '^', commit], stdout=subprocess.PIPE).stdout
    r = subprocess.run(['git', '-C', '/repo', 'apply', '-R', '--3way'], input=patch, stdout=subprocess.PIPE, stderr=subprocess.STDOUT)
    if r.returncode != 0:
        r = subprocess.run(['git', '-C', '/repo', 'apply', '-R'], input=patch, stdout=subprocess.PIPE, stderr=subprocess.STDOUT)
    if r.returncode != 0:
        print("CANNOT-REVERT", pid, commit, r.stdout.decode()[-200:]); ok = False
        subprocess.run(['git', '-C', '/repo', 'checkout', '--', '.']); subprocess.run(['git', '-C', '/repo', 'reset', '-q'])
        continue
    try:
        a = subprocess.run(['./check', pid, '--replay', replay], cwd='/verif', stdout=subprocess.PIPE, stderr=subprocess.STDOUT)
    finally:
        subprocess.run(['git', '-C', '/repo', 'reset', '-q']); subprocess.run(['git', '-C', '/repo', 'checkout', '--', '.'])
    b = subprocess.run(['./check', pid, '--replay', replay], cwd='/verif', stdout=subprocess.PIPE, stderr=subprocess.STDOUT)
    verdict = "OK" if (a.returncode == 1 and b'VIOLATION' in a.stdout and b.returncode == 0) else "BAD"
    if verdict == "BAD":
        ok = False
    print(verdict, pid, commit, replay, "old:", a.returncode, "new:", b.returncode)
    if verdict == "BAD":
        print(a.stdout.decode()[-500:])
print("ALL OK" if ok else "SOME BAD")
