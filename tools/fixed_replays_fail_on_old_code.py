#!/usr/bin/env python3
"""For every 'fixed' entry of known_findings.json: make a scratch worktree of /repo HEAD, reverse-apply the fix commit
there, run the recorded replay against it (VERIF_REPO; must report a VIOLATION), and run it against /repo itself (must
pass).  /repo is never touched.  Development aid.   usage: fixed_replays_fail_on_old_code.py [PROP ...]"""
import json, os, subprocess, sys
d = json.load(open('/verif/known_findings.json'))
only = sys.argv[1:]
ok = True
WT = '/tmp/fixwt'
for f in d['findings']:
    if f.get('status') != 'fixed' or not f.get('replay'):
        continue
    if only and f['property'] not in only:
        continue
    commit, pid, replay = f['commit'], f['property'], f['replay']
    subprocess.run(['git', '-C', '/repo', 'worktree', 'remove', '--force', WT], stdout=subprocess.DEVNULL, stderr=subprocess.DEVNULL)
    subprocess.check_call(['git', '-C', '/repo', 'worktree', 'add', '-q', '--detach', WT, 'HEAD'])
    patch = subprocess.run(['git', '-C', '/repo', 'diff', commit + '^', commit], stdout=subprocess.PIPE).stdout
    r = subprocess.run(['git', '-C', WT, 'apply', '-R', '--3way'], input=patch, stdout=subprocess.PIPE, stderr=subprocess.STDOUT)
    if r.returncode != 0:
        r = subprocess.run(['git', '-C', WT, 'apply', '-R'], input=patch, stdout=subprocess.PIPE, stderr=subprocess.STDOUT)
    if r.returncode != 0:
        print("CANNOT-REVERT", pid, commit, r.stdout.decode()[-200:]); ok = False
        continue
    env = dict(os.environ, VERIF_REPO=WT)
    a = subprocess.run(['./check', pid, '--replay', replay, '--no-evidence'], cwd='/verif', env=env, stdout=subprocess.PIPE, stderr=subprocess.STDOUT)
    b = subprocess.run(['./check', pid, '--replay', replay, '--no-evidence'], cwd='/verif', stdout=subprocess.PIPE, stderr=subprocess.STDOUT)
    verdict = "OK" if (a.returncode == 1 and b'VIOLATION' in a.stdout and b.returncode == 0) else "BAD"
    if verdict == "BAD":
        ok = False
    print(verdict, pid, commit, replay, "old:", a.returncode, "new:", b.returncode, flush=True)
    if verdict == "BAD":
        print(a.stdout.decode()[-500:])
subprocess.run(['git', '-C', '/repo', 'worktree', 'remove', '--force', WT], stdout=subprocess.DEVNULL, stderr=subprocess.DEVNULL)
subprocess.run(['git', '-C', '/repo', 'worktree', 'prune'])
print("ALL OK" if ok else "SOME BAD")
