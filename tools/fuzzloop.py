#!/usr/bin/env python3-vt
"""Run a libFuzzer campaign and summarise distinct crashes (development aid)."""
import os, re, shutil, sys, collections
sys.path.insert(0, os.path.dirname(os.path.dirname(os.path.abspath(__file__))))
os.environ.setdefault("VERIF_WORK", "/dev/shm/verif-work")
from vlib import build, fuzzrun
target = sys.argv[1]; secs = int(sys.argv[2]) if len(sys.argv) > 2 else 30
maxlen = int(sys.argv[3]) if len(sys.argv) > 3 else 65536
seed = int(sys.argv[4]) if len(sys.argv) > 4 else 1
b = build.build('fuzz'); t = fuzzrun.build_target(b, target)
r = fuzzrun.campaign(t, '/verif/corpus/' + target, secs, seed, max_len=maxlen)
print("execs", r['execs'], "corpus", r['corpus_files'], "crashes", len(r['crashes']), "other", len(r['other_artifacts']))
seen = collections.OrderedDict()
os.makedirs('/tmp/fx/crashes', exist_ok=True)
for c, txt in r['crashes']:
    m = re.search(r'ORACLE-VIOLATION: [^\n]*', txt)
    key = m.group(0) if m else None
    if not key:
        lines = [l for l in txt.split('\n') if 'runtime error' in l or 'ERROR: AddressSanitizer' in l or 'Assertion' in l or 'SUMMARY' in l or 'terminate' in l or 'what()' in l]
        frames = [l.strip() for l in txt.split('\n') if re.search(r'#\d+ .* in .*/repo/', l)][:2]
        key = ' | '.join(lines[:2] + frames)
    if key not in seen:
        seen[key] = c
        shutil.copy(c, '/tmp/fx/crashes/')
for a in r['other_artifacts'][:5]:
    shutil.copy(a, '/tmp/fx/crashes/')
    print("OTHER", os.path.basename(a))
for k, c in seen.items():
    print("CRASH", os.path.basename(c), k[:600])
shutil.rmtree(r['work'])
