#!/usr/bin/env python3-vt
"""Create the seed corpus for fuzz_dfs: small valid images of every container
(+ cut-down copies of the repository's test images) with a FuzzedDataProvider
trailer selecting extension / gzip mode / command."""
import glob, gzip, os, sys
sys.path.insert(0, os.path.dirname(os.path.dirname(os.path.abspath(__file__))))
from vlib import disc, flux, containers
OUT = os.path.join(os.path.dirname(os.path.dirname(os.path.abspath(__file__))), "corpus", "fuzz_dfs")
os.makedirs(OUT, exist_ok=True)
EXT = {"ssd": 0, "sdd": 1, "dsd": 2, "ddd": 3, "mmb": 4, "hfe": 5, "mfm": 6}

def trailer(ext, gzmode=0, cmd=0, verbose=1, a1=0, a2=0, a3=0):
    # consumed from the end: ext, gzmode, cmd, verbose, a1, a2, a3
    return bytes([a3, a2, a1, verbose, cmd, gzmode, EXT[ext]])

def ent(name, start, length, seed, d=ord("$")):
    return {"name": name, "dir": d, "locked": seed % 2 == 0, "load": 0x31900, "exec": 0x38023, "length": length,
            "start": start, "body": {"kind": "text" if seed % 3 == 0 else "rand", "seed": seed}}

def surf(variant, tracks, spt, seed=1):
    if variant == "opus":
        vols = []
        for i, stt in enumerate([1, 3]):
            vols.append({"label": "AB"[i], "start_track": stt, "title": b"VOL%d" % i, "cycle": i, "boot": i,
                         "total": (2 if i == 0 else tracks - 3) * spt if (2 if i == 0 else tracks - 3) * spt < 1024 else 1008,
                         "cats": [[ent(b"B", 3, 300, 2), ent(b"A", 0, 700, 1)]]})
        return {"variant": "opus", "tracks": tracks, "spt": spt, "fill": {"kind": "zero", "seed": 0}, "volumes": vols}
    lo = 4 if variant == "watford" else 2
    cats = [[ent(b"PROG", lo + 4, 520, 3), ent(b"!BOOT", lo, 700, 1)]]
    if variant == "watford":
        cats.append([ent(b"HIGH", lo + 12, 256, 4, ord("W"))])
    return {"variant": variant, "tracks": tracks, "spt": spt, "fill": {"kind": "zero", "seed": 0},
            "volumes": [{"label": None, "title": b"SEED %d" % seed, "cycle": 0x42, "boot": 3,
                         "total": min(tracks * spt, 1023), "cats": cats}]}

n = 0
def put(name, data, ext, **kw):
    global n
    for cmd in kw.pop("cmds", (0, 1, 2, 7, 8, 10, 11)):
        with open(os.path.join(OUT, "%s_c%d" % (name, cmd)), "wb") as fh:
            fh.write(data + trailer(ext, cmd=cmd, **kw))
        n += 1

# sector dumps (cut to 24 KiB)
for variant in ("acorn", "watford"):
    img = disc.build_surface(surf(variant, 40, 10))
    put("ssd_" + variant, img[:24 * 1024], "ssd")
    put("ssd_gz_" + variant, img[:24 * 1024], "ssd", gzmode=4, cmds=(0, 2))
put("sdd_opus", disc.build_surface(surf("opus", 40, 18))[:40 * 1024], "sdd", cmds=(0, 1, 7, 8, 9, 14))
a = disc.build_surface(surf("acorn", 40, 10, 1)); b = disc.build_surface(surf("acorn", 40, 10, 2))
put("dsd", containers.interleaved(a, b, 10)[:40 * 1024], "dsd", cmds=(0, 9, 12))
# mmb: table + the first 6 KiB of slot 0
import tempfile
tmp = tempfile.mktemp()
containers.write_mmb(tmp, {0: (0x0F, a), 1: (0x00, b[:4096])}, trailing=False)
mm = open(tmp, "rb").read()[:8192 + 6144]; os.unlink(tmp)
put("mmb", mm, "mmb", cmds=(0, 9, 12))
# flux images: 2 tracks
for enc, spt in (("FM", 10), ("MFM", 18)):
    s = surf("acorn", 2, spt); s["volumes"][0]["total"] = 2 * spt
    s["volumes"][0]["cats"] = [[ent(b"A", 2, 700, 1)]]
    im = disc.build_surface(s)
    for ver in (1, 3):
        put("hfe%d_%s" % (ver, enc), flux.hfe_from_sides([im], 2, spt, enc, version=ver), "hfe", cmds=(0, 2, 5))
    put("hfe_2s_%s" % enc, flux.hfe_from_sides([im, im], 2, spt, enc), "hfe", cmds=(9,))
s = surf("acorn", 2, 18); s["volumes"][0]["total"] = 36; s["volumes"][0]["cats"] = [[ent(b"A", 2, 700, 1)]]
put("mfm", flux.hxcmfm_from_sides([disc.build_surface(s)], 2, 18), "mfm", cmds=(0, 2, 5))
# cut-down copies of the repository's own test images
for f in sorted(glob.glob("/repo/dfs/testdata/*")):
    base = os.path.basename(f)
    if base.endswith(".gz"):
        raw = gzip.open(f).read(); base = base[:-3]
    else:
        raw = open(f, "rb").read()
    ext = base.rsplit(".", 1)[-1]
    if ext not in EXT or ext in ("hfe", "mfm"):
        continue
    put("repo_" + base.replace(".", "_"), raw[:20 * 1024], ext, cmds=(0, 1))
print(n, "seeds", sum(os.path.getsize(os.path.join(OUT, f)) for f in os.listdir(OUT)) // 1024, "KiB")
