#!/usr/bin/env python3
"""Regenerate MANIFEST.json from the table below (keeps it schema-valid)."""
import json, os, subprocess, sys
HERE = os.path.dirname(os.path.dirname(os.path.abspath(__file__)))
props = [json.loads(l) for l in open(os.path.join(HERE, "properties.jsonl"))]

CHECKS = {
 "C01": dict(level="exploration", technique="property-based testing (Hypothesis): generated discs vs reference model of the file bytes and renderings",
   text="Generated well-formed discs of every variant/geometry/container; every catalogued file read back through type --binary, extract-files, type, list, dump and compared byte-for-byte with what the generator placed. Exploration: finds violations on generated discs, does not prove absence.",
   note="Trusted: the Python disc builder (written from the DFS format documents) and the reference renderings; names restricted to the DFS character set.", ref="4 C01"),
 "C02": dict(level="exploration", technique="property-based testing (Hypothesis) + exhaustive enumeration of the mixed high-bits byte vs reference catalogue decoder",
   text="info / cat (all --ui) / show-titles / .inf compared with an independent decoding of the catalogue fields the generator encoded; all representable values of the mixed byte enumerated exhaustively.",
   note="Trusted: reference decoder, tolerant output parsers; titles restricted to printable ASCII.", ref="4 C02"),
 "C03": dict(level="exploration", technique="property-based testing (Hypothesis): grammar-generated tokenised programs vs reference detokeniser; exhaustive single-token enumeration",
   text="Grammar-generated well-formed programs for all 10 dialect names and LISTO 0-7, file and stdin, compared byte-for-byte with a detokeniser transcribed from doc/bbcbasic.5; every single byte value enumerated per dialect.",
   note="Trusted: the transcribed token tables (cross-checked against the pinned golden token map at start-up) and the LISTO rules of bbcbasic_to_text.1; programs restricted to non-negative loop nesting.", ref="4 C03"),
 "C08": dict(level="exploration", technique="coverage-guided fuzzing (libFuzzer, ASan+UBSan, oracle in target) + property-based testing of the CLI on ASan/MSan/NDEBUG builds",
   text="Arbitrary and mutated-valid inputs, every dialect name and no --dialect, valid and invalid LISTO, stdin, several files and unknown options; the tool must return 0/1 without signal, sanitizer report or time-out and print a diagnostic whenever it fails. In-process libFuzzer campaign on decode_file()/wrapped_main() with the same oracle.",
   note="Trusted: sanitizers' ability to expose memory errors/UB; MSan on the pure-C tool for uninitialised state. Exploration only.", ref="4 C08", engine="E-hyp + E-fuzz"),
 "C09": dict(level="exploration", technique="property-based testing (Hypothesis): prefix/metamorphic relation on truncations, constructive framing faults, multi-file histories",
   text="Every proper prefix of small generated programs (sampled cut points for larger ones) must be rejected with a diagnostic and print only a prefix of the intact listing; each listed kind of framing/token fault is built constructively and must be rejected without inventing text; multi-file command lines must equal the concatenation of single-file runs.",
   note="Trusted: the C03 generator for well-formed programs; the tool's own intact listing is the reference for the prefix relation.", ref="4 C09"),
 "C04": dict(level="exploration", technique="property-based testing (Hypothesis): self-describing marker discs, differential against the documented offset formula",
   text="Marker discs in ssd/sdd/dsd/ddd/mmb containers (optionally truncated); dump-sector over first/second/middle/last track x all sectors of every attached drive, out-of-range addresses, reads past a truncation point, file reads, unformatted MMB slots; expected bytes come from the documented offset formula evaluated on the generated file.",
   note="Trusted: container writers written from dfs.1/mmb.5. Two-sided non-interleaved images are a recorded known finding and excluded from generation.", ref="4 C04"),
 "C14": dict(level="exploration", technique="property-based testing (Hypothesis): layout-first disc generation vs extent-arithmetic reference model and cross-command invariants",
   text="free, space, sector-map and extract-unused are compared with extent arithmetic computed from the generated layout, for zero-length files, gaps of every size, empty Watford halves and all Opus volumes.",
   note="Trusted: reference extent arithmetic; two points on which the statement is silent accept both answers (counted as ambiguous in evidence).", ref="4 C14"),
 "C15": dict(level="exploration", technique="property-based testing (Hypothesis) + exhaustive single-character enumeration vs an independent recursive wildcard matcher",
   text="info WILDCARD and type NAME on generated catalogues over the whole DFS character set (regex metacharacters, mixed case, Opus volume letters, defaulted drive/dir) compared with a reference matcher written from dfs.1; all single-character name/pattern pairs enumerated.",
   note="Trusted: the reference matcher; malformed wildcards are only required to select nothing.", ref="4 C15"),
 "C12": dict(level="exploration", technique="property-based testing (Hypothesis): hostile catalogue names, before/after file-system snapshot invariant",
   text="Catalogues with hostile names/directories (/, .., control characters) are extracted into a sandbox with canary files; a recursive snapshot (path, type, size, hash, mode) before and after every command must show the image unchanged, no change at all for non-extract commands and only regular files directly inside the destination for extract commands.",
   note="Trusted: the snapshot covers the whole per-case sandbox (two directory levels above the destination). Exit status is not judged.", ref="4 C12"),
 "C13": dict(level="exploration", technique="property-based testing (Hypothesis): metamorphic relation (same catalogue, marker-imitating file bodies) + direct identification oracle",
   text="Well-formed discs of each variant are written twice with different file bodies (random vs bodies imitating the Watford/Opus/side-2 markers); identified format, slot count, volumes, geometry and all listings must be what the markers define and identical for both.",
   note="Trusted: generator's definition of a complete (excluded) forged Opus table; format name read from --verbose. One recorded known finding (a .ddd with a blank second side whose side-0 file data in sectors 16-17 passes for a catalogue is probed as 16 sectors per track): printed as KNOWN-FINDING, every other body-dependent change is a violation.", ref="4 C13"),
 "C17": dict(level="exploration", technique="property-based testing (Hypothesis): boundary-value generation around volume/surface/slot ends with a prefix-of-in-bounds-bytes oracle (ASan build)",
   text="A probe entry ends -2..+2 (and further) sectors around every Opus volume end, surface end, interleaved side end and MMB slot end; anything printed or extracted must be a prefix of the in-bounds bytes, inside extents must read exactly, crossing extents must fail with a diagnostic.",
   note="Trusted: neighbouring regions hold different random data so foreign bytes cannot coincide.", ref="4 C17"),
 "C05": dict(level="exploration", technique="property-based testing (Hypothesis): differential between flux images written by independent FM/MFM/HFE/HxC encoders and per-side sector dumps of the same disc",
   text="Every generated disc is written as sector dumps and as HFE v1 / v3 / HxC MFM with drawn legal gaps, sync lengths, sector order, track length and v3 opcodes (incl. SKIPBITS and block-boundary positions); stdout and exit status of the commands must be identical.",
   note="Trusted: the Python encoders (validated once against the real reader and the repo's test images' behaviour); 'legal' layout ranges as listed in DESIGN.md.", ref="4 C05"),
 "C06": dict(level="exploration", technique="coverage-guided fuzzing (libFuzzer target fuzz_track with brute-force reference decoder in the target, bit-slip custom mutator) + property-based fault injection on flux images",
   text="Decoder level: every sector returned for an arbitrary bit stream must be backed by a CRC-valid ID and data field found by an independent brute-force scan, correctly paired. Image level: 1-5 drawn faults (flips, slips, drop-outs, wiped syncs, truncation) on known images; every (side, track, sector) read must fail or return exactly the recorded bytes.",
   note="Trusted: the brute-force reference scan and CRC; fault positions come from the encoder's field map.", ref="4 C06", engine="E-hyp + E-fuzz"),
 "C16": dict(level="exploration", technique="model-based / stateful property-based testing (Hypothesis): option histories, every prefix run, allocation model + invariants; exhaustive enumeration of short histories",
   text="Histories of --drive-first/--drive-physical/--file options over ssd/sdd/dsd/ddd/hfe/mmb images with unique titles and bodies; every prefix is executed; assignments must be distinct, stable under extension, obey the policy invariants, agree with --show-config and be what addressed commands read.",
   note="Trusted: titles/bodies unique per surface identify what was read; exact placement under the physical policy is not asserted beyond the stated invariants.", ref="4 C16"),
 "C07": dict(level="exploration", technique="coverage-guided fuzzing (libFuzzer target fuzz_dfs calling main() in-process, oracle in target) + property-based testing with structure-aware mutation of generated images and hostile command lines",
   text="Generated images of every container receive structure-aware mutations (truncation at structure boundaries, hostile header/catalogue fields, flips, splices), optionally gzip-compressed/corrupted, and are run through 19 command lines on the ASan+UBSan, default and NDEBUG builds; command lines are drawn from the real option grammar with hostile values. fuzz_dfs runs main() in-process under libFuzzer with time-out and malloc limits. Oracle: exit 0/1/2, no signal/abort/sanitizer report/time-out/excess memory, diagnostic whenever the status is non-zero.",
   note="Trusted: sanitizers; 10 s time-out confirmed three times; peak RSS measured with time(1) on a quarter of the cases.", ref="4 C07", engine="E-hyp + E-fuzz"),
 "C10": dict(level="exploration", technique="property-based testing (Hypothesis): differential X vs X.gz, and corruption/truncation judged by an independent inflater (Python zlib) as referee",
   text="Images of every container compressed at all levels with optional header fields and 1-3 members must give identical stdout/exit; every truncation point (all for small files), single-bit flips, raw-as-.gz and empty files must be rejected with a diagnostic whenever the referee rejects them, and behave as intact when the referee still yields the same bytes.",
   note="Trusted: Python zlib as referee; trailing garbage after the last member is not judged.", ref="4 C10"),
 "C11": dict(level="fault_enumeration", technique="fault enumeration: the byte offset at which the output device starts refusing writes is enumerated (RLIMIT_FSIZE / /dev/full) for generated (command, input) pairs",
   text="For each drawn command form and input, every fault offset 0..64, L-1, L, L+1, all 4096-multiples +-1 and 20 drawn offsets is injected; incomplete output must give a non-zero exit status and a diagnostic; complete output must give exit 0.",
   note="Fault model: writes succeed up to k bytes and then fail with EFBIG (regular file under RLIMIT_FSIZE) or always fail (/dev/full); SIGPIPE not used. Exhaustive over k <= 64 per pair, sampled beyond.", ref="4 C11"),
 "C18": dict(level="exploration", technique="property-based testing (Hypothesis): metamorphic relation between runs with and without diagnostic/presentation options (pipe and pseudo-terminal)",
   text="--verbose/--show-config in every position must leave stdout and exit status unchanged; --ui and COLUMNS (on a pty) may only change the layout of cat: parsed content equal, other commands byte-identical; repeated runs identical.",
   note="Trusted: cat content parser; density word and labels count as presentation.", ref="4 C18"),
 "C19": dict(level="exploration", technique="property-based testing (Hypothesis): differential between the assertion-enabled and the NDEBUG build (+ MSan NDEBUG build of the C tool)",
   text="Valid and hostile inputs of both tools are run on the default and the NDEBUG build with the same argv[0]; unless the default build stops on a failed assertion, stdout and exit status must be equal and the NDEBUG build must not crash or use uninitialised memory.",
   note="Trusted: gcc builds of the same tree at -O1 -g and -O2 -g -DNDEBUG.", ref="4 C19"),
}

def main():
    hooks_commits = []
    m = {"version": 1,
         "setup_cmd": "./setup.sh",
         "hooks": {"guard": "BEEBTOOLS_VERIF",
                   "enable": "vlib/build.py passes -DBEEBTOOLS_VERIF in CMAKE_C_FLAGS/CMAKE_CXX_FLAGS for every variant it builds from /repo's working tree (no source hook is currently needed; dfs/main.cc is additionally compiled with -Dmain=dfs_main for the libFuzzer targets)",
                   "baseline_off_cmd": "cmake -G Ninja -S /repo -B /repo/_build && cmake --build /repo/_build && ctest --test-dir /repo/_build -j8 --timeout 900",
                   "source_commits": hooks_commits, "add_only": True},
         "engines": [
            {"name": "E-hyp", "path": "vlib/harness.py", "kind_free_text": "Hypothesis 6.168 driving the real executables as subprocesses, 16 worker processes, reference models in vlib/",
             "serves_properties": sorted(CHECKS)},
            {"name": "E-fuzz", "path": "vlib/fuzzrun.py", "kind_free_text": "libFuzzer in-process targets under fuzz/ built with clang -fsanitize=fuzzer,address,undefined against the object files of the `fuzz` build variant; 16 independent processes per campaign",
             "serves_properties": ["C06", "C07", "C08"]},
         ],
         "checks": [], "not_applicable": [],
         "notes": "All checks: ./check <ID> --tier quick|thorough; seed from VERIF_SEED; evidence/<ID>.json rewritten on every run; known_findings.json lists fixed/known defects."}
    for p in props:
        pid = p["id"]
        c = CHECKS.get(pid)
        if not c:
            m["not_applicable"].append({"property_id": pid, "reason": "check not built yet (work in progress; see DESIGN.md section 4)"})
            continue
        m["checks"].append({
            "property_id": pid,
            "quick_cmd": "./check %s --tier quick" % pid,
            "thorough_cmd": "./check %s --tier thorough" % pid,
            "evidence_file": "evidence/%s.json" % pid,
            "replay_cmd_template": "./check %s --replay {path}" % pid,
            "engine": c.get("engine", "E-hyp"),
            "level_claimed": {"category": c["level"], "text": c["text"], "design_ref": "DESIGN.md section " + c["ref"]},
            "level_note": c["note"], "technique": c["technique"]})
    json.dump(m, open(os.path.join(HERE, "MANIFEST.json"), "w"), indent=1)
    print("checks:", len(m["checks"]), "not_applicable:", len(m["not_applicable"]))

main()
