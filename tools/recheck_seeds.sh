#!/bin/sh
# Development aid: re-run the quick check of every named kept seed against the CURRENT checks (scratch worktree of /repo
# HEAD + seeded/<name>/patch.diff, VERIF_REPO) and print caught / MISSED.   tools/recheck_seeds.sh C02-c C04-b ...
cd "$(dirname "$0")/.." || exit 2
for name in "$@"; do
  id=${name%%-*}
  out=$(tools/with_seed.sh "$name" ./check "$id" --no-evidence 2>&1); rc=$?
  if [ $rc -eq 1 ] && echo "$out" | grep -q "^VIOLATION property=$id"; then echo "caught $name"; else echo "MISSED $name rc=$rc $(echo "$out" | grep -E 'tier=quick' | cut -c1-90)"; fi
done
