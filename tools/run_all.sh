#!/bin/sh
# run every check of MANIFEST.json in the given tier (default quick) on /repo; one summary line each
#   tools/run_all.sh [tier] [NN ...]
tier=${1:-quick}
[ $# -gt 0 ] && shift
cd "$(dirname "$0")/.." || exit 2
fail=0
for n in ${*:-01 02 03 04 05 06 07 08 09 10 11 12 13 14 15 16 17 18 19}; do
  out=$(./check C$n --tier "$tier" 2>&1); rc=$?
  echo "C$n rc=$rc $(echo "$out" | grep -E "tier=$tier" | cut -c1-120)"
  if [ $rc -ne 0 ]; then fail=1; echo "$out" | grep -E "VIOLATION|failure key|INCONCLUSIVE|HARNESS" | cut -c1-300 | head -5; fi
done
exit $fail
