#!/bin/sh
# Build a source tree (default /repo) with the stock configuration (guard OFF)
# in a scratch directory and run the repository's own test suite.
src=${1:-/repo}
b=$(mktemp -d /tmp/beeb-suite-XXXXXX)
trap 'rm -rf "$b"' EXIT
cmake -G Ninja -S "$src" -B "$b" -DCMAKE_BUILD_TYPE=RelWithDebInfo >/dev/null 2>&1 || { echo "configure failed"; exit 2; }
cmake --build "$b" -j 16 >"$b/build.log" 2>&1 || { tail -30 "$b/build.log"; echo "build failed"; exit 2; }
ctest --test-dir "$b" -j 16 --timeout 900 2>&1 | tail -12
