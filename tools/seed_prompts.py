#!/usr/bin/env python3
"""Write the brief for one round of independent seeding sub-agents and create their scratch worktrees.
   tools/seed_prompts.py <round> C01 C05 ...   ->  /tmp/agent<round>-Cxx.txt, worktree /tmp/wt<round>-Cxx
The brief contains the property text (id, title, statement, quantifier) from properties.jsonl and, so that rounds do not
repeat each other, one line per change already kept for that property (from seeded/summary.json).  Nothing about the
checks themselves is given to the agents."""
import json, os, subprocess, sys
V = os.path.dirname(os.path.dirname(os.path.abspath(__file__)))
rnd = sys.argv[1]
props = {json.loads(l)["id"]: json.loads(l) for l in open(os.path.join(V, "properties.jsonl"))}
summ = json.load(open(os.path.join(V, "seeded", "summary.json")))
T = open(os.path.join(V, "tools", "seed_prompt_template.txt")).read()
for pid in sys.argv[2:]:
    wt = "/tmp/wt%s-%s" % (rnd, pid)
    p = props[pid]
    prior = "\n".join(" - " + v["change"] for k, v in sorted(summ.items()) if k.startswith(pid + "-"))
    txt = T.replace("@WT@", wt).replace("@ID@", pid).replace("@TITLE@", p["title"]).replace("@STATEMENT@", p["statement"]) \
           .replace("@OVER@", p["quantifier"]["text"]).replace("@PRIOR@", prior)
    open("/tmp/agent%s-%s.txt" % (rnd, pid), "w").write(txt)
    subprocess.call(["git", "-C", "/repo", "worktree", "remove", "--force", wt], stderr=subprocess.DEVNULL)
    subprocess.check_call(["git", "-C", "/repo", "worktree", "add", "-q", "--detach", wt, "HEAD"])
    print(pid, wt)
