#!/usr/bin/env python3
"""Regenerate the seeded-changes table in DESIGN.md section 9.4 from seeded/*/meta.json + notes."""
import glob, json, os, re
def note_of(m):
    out = []
    h = m.get('history')
    if isinstance(h, str):
        out.append(h)
    elif h:
        for step in h:
            if step.get('result') == 'missed':
                out.append("first **missed**: " + step.get('why', ''))
            else:
                out.append("caught after: " + step.get('after', ''))
    if m.get('note'):
        out.append(m['note'])
    return "; ".join(out).replace("|", "\\|").replace("\n", " ")


rows = ["| seed | property | change (file: mechanism) | needs | quick check | note |", "|---|---|---|---|---|---|"]
SUMMARY = json.load(open('/verif/seeded/summary.json')) if os.path.exists('/verif/seeded/summary.json') else {}
for d in sorted(glob.glob('/verif/seeded/*/')):
    name = os.path.basename(d.rstrip('/'))
    try:
        m = json.load(open(d + 'meta.json'))
    except OSError:
        continue
    s = SUMMARY.get(name, {})
    rows.append("| %s | %s | %s | %s | %s | %s |" % (name, m['property'], s.get('change', ''), s.get('needs', ''),
                "**caught**" if m['caught_by_quick_check'] else "missed", note_of(m)))
table = "\n".join(rows)
p = '/verif/DESIGN.md'; t = open(p).read()
if 'SEEDED_TABLE' in t:
    t = t.replace('SEEDED_TABLE', '<!-- seeded-table-begin -->\n' + table + '\n<!-- seeded-table-end -->')
else:
    t = re.sub(r'<!-- seeded-table-begin -->.*?<!-- seeded-table-end -->',
               lambda _: '<!-- seeded-table-begin -->\n' + table + '\n<!-- seeded-table-end -->', t, flags=re.S)
open(p, 'w').write(t)
print(len(rows) - 2, "rows")
