#!/usr/bin/env python3-vt
"""Survey: judge N generated cases of a check without stopping at failures and
tally the failure keys (development aid, not part of the registered checks)."""
import collections, importlib, os, sys, json
sys.path.insert(0, os.path.dirname(os.path.dirname(os.path.abspath(__file__))))
os.environ.setdefault("VERIF_WORK", "/dev/shm/verif-work")
from hypothesis import given, settings, HealthCheck, Phase, seed
from vlib import build as buildmod, harness
pid = sys.argv[1].upper(); n = int(sys.argv[2]) if len(sys.argv) > 2 else 200
sd = int(sys.argv[3]) if len(sys.argv) > 3 else 7
mod = importlib.import_module("checks." + pid.lower()); check = mod.CHECK
th = buildmod.tree_hash()
builds = {v: buildmod.build(v, th) for v in check.variants}
if hasattr(check, "prepare"): check.prepare(builds)
ctx = harness.Ctx(pid, builds, harness.load_known(pid))
tally = collections.Counter(); first = {}
@settings(max_examples=n, database=None, deadline=None, suppress_health_check=list(HealthCheck), phases=[Phase.generate])
@seed(sd)
@given(check.strategy("quick"))
def run(case):
    v = check.judge(ctx, case)
    for f in v.failures:
        tally[f.key] += 1
        first.setdefault(f.key, (f.msg, case))
run()
for k, c in tally.most_common():
    print(c, k, first[k][0][:300])
if "--dump" in sys.argv:
    for k,(m,c) in first.items():
        d = os.path.join("/tmp/survey", k.replace("/", "_")); os.makedirs(d, exist_ok=True)
        open(os.path.join(d, "case.json"), "w").write(harness.dumps({"case": c}))
        print("saved", d)
