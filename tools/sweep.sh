#!/bin/sh
# run every quick check (or those in $SWEEP_CHECKS) with several seeds; print one line per run (development aid)
for seed in "$@"; do
  for n in ${SWEEP_CHECKS:-01 02 03 04 05 06 07 08 09 10 11 12 13 14 15 16 17 18 19}; do
    out=$(VERIF_SEED=$seed ./check C$n --tier quick --no-evidence 2>&1); rc=$?
    echo "seed=$seed C$n rc=$rc $(echo "$out" | grep -E 'tier=quick' | cut -c1-120)"
    if [ $rc -ne 0 ]; then bad=1; echo "$out" | grep -E "VIOLATION|failure key|INCONCLUSIVE|HARNESS" | cut -c1-300 | head -5; fi
  done
done
exit ${bad:-0}
