#!/bin/sh
# Development aid: run a command with VERIF_REPO pointing at a scratch worktree of /repo HEAD + seeded/<name>/patch.diff
#   tools/with_seed.sh C15-c ./check C15 --no-evidence
name=$1; shift
wt=/tmp/seedwt-$name
git -C /repo worktree remove --force "$wt" 2>/dev/null
git -C /repo worktree add -q --detach "$wt" HEAD || exit 2
git -C "$wt" apply "/verif/seeded/$name/patch.diff" || { git -C /repo worktree remove --force "$wt"; exit 2; }
VERIF_REPO=$wt "$@"; rc=$?
git -C /repo worktree remove --force "$wt"; git -C /repo worktree prune
rm -rf /verif/replays/*/found-*
exit $rc
