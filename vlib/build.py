"""Build /repo's current working tree into hash-keyed directories.

Every variant is configured with cmake -G Ninja from /repo itself, so the
repository's own source lists are used.  The build directory name contains a
hash of every source file, so an edited tree is rebuilt and an unchanged tree
is reused.
"""
import fcntl
import glob
import hashlib
import os
import shutil
import subprocess
import sys
import time

REPO = os.environ.get("VERIF_REPO", "/repo")
VERIF = os.path.dirname(os.path.dirname(os.path.abspath(__file__)))
BUILD_ROOT = os.path.join(VERIF, "build")
GUARD = "BEEBTOOLS_VERIF"

SAN = "-fsanitize=address,undefined -fno-sanitize-recover=undefined -fno-omit-frame-pointer"

VARIANTS = {
    # name: (CC, CXX, cflags, build_type, targets)
    "dbg": ("gcc", "g++", "-O1 -g", "", ["dfs", "bbcbasic_to_text"]),
    "ndebug": ("gcc", "g++", "-O2 -g -DNDEBUG", "", ["dfs", "bbcbasic_to_text"]),
    "asan": ("clang", "clang++", "-O1 -g " + SAN, "", ["dfs", "bbcbasic_to_text"]),
    "msan-basic": ("clang", "clang++",
                   "-O1 -g -DNDEBUG -fsanitize=memory -fsanitize-memory-track-origins -fno-omit-frame-pointer",
                   "", ["bbcbasic_to_text"]),
    # development aid (tools/coverage.sh): gcov line coverage of what the generators reach
    "cov": ("gcc", "g++", "-O0 -g --coverage", "", ["dfs", "bbcbasic_to_text"]),
    "fuzz": ("clang", "clang++",
             "-O1 -g -fsanitize=fuzzer-no-link,address,undefined -fno-sanitize-recover=undefined -fno-omit-frame-pointer",
             "", ["dfslib", "dfsbase", "decoder", "dfs"]),
}


def tree_hash():
    h = hashlib.sha1()
    paths = []
    for root, dirs, files in os.walk(REPO):
        dirs[:] = sorted(d for d in dirs if not (root == REPO and d in ("_build", ".git", "_build_orig", "seeded",
                                                                        "scratch")))
        for f in sorted(files):
            if f.endswith("~"):
                continue
            paths.append(os.path.join(root, f))
    for p in paths:
        rel = os.path.relpath(p, REPO)
        if rel.startswith("dfs/testdata") or rel.startswith("basic/testdata"):
            # test data does not influence the binaries; include name+size only
            try:
                st = os.stat(p)
            except OSError:
                continue
            h.update(("%s\0%d\0" % (rel, st.st_size)).encode())
            continue
        try:
            with open(p, "rb") as fh:
                data = fh.read()
        except OSError:
            continue
        h.update(rel.encode() + b"\0" + hashlib.sha1(data).digest())
    return h.hexdigest()[:12]


def _run(cmd, cwd=None, log=None):
    p = subprocess.run(cmd, cwd=cwd, stdout=subprocess.PIPE, stderr=subprocess.STDOUT)
    if log is not None:
        with open(log, "ab") as fh:
            fh.write(("$ %s\n" % " ".join(cmd)).encode())
            fh.write(p.stdout)
    if p.returncode != 0:
        sys.stderr.write(p.stdout.decode("utf-8", "replace")[-6000:])
        raise RuntimeError("build step failed: %s" % " ".join(cmd))
    return p.stdout


def build(variant, thash=None):
    """Build (or reuse) `variant` for the current tree; return the build dir."""
    cc, cxx, flags, btype, targets = VARIANTS[variant]
    thash = thash or tree_hash()
    os.makedirs(BUILD_ROOT, exist_ok=True)
    bdir = os.path.join(BUILD_ROOT, "%s-%s" % (variant, thash))
    stamp = os.path.join(bdir, ".built")
    lockf = open(os.path.join(BUILD_ROOT, ".lock-%s" % variant), "w")
    fcntl.flock(lockf, fcntl.LOCK_EX)
    try:
        if os.path.exists(stamp):
            os.utime(stamp, None)
            return bdir
        if os.path.exists(bdir):
            shutil.rmtree(bdir)
        os.makedirs(bdir)
        log = os.path.join(bdir, "build.log")
        allflags = "%s -D%s" % (flags, GUARD)
        env_cmd = ["cmake", "-G", "Ninja", "-S", REPO, "-B", bdir,
                   "-DCMAKE_C_COMPILER=%s" % cc, "-DCMAKE_CXX_COMPILER=%s" % cxx,
                   "-DCMAKE_BUILD_TYPE=%s" % btype,
                   "-DCMAKE_C_FLAGS=%s" % allflags, "-DCMAKE_CXX_FLAGS=%s" % allflags]
        _run(env_cmd, log=log)
        if variant == "fuzz":
            # only object files are needed (linking dfs would fail: no main)
            tg = ["dfslib", "dfsbase", "decoder"]
            _run(["cmake", "--build", bdir, "-j", "16", "--target"] + tg, log=log)
            # compile the objects of the dfs executable without linking it
            objs = [o for o in _ninja_objects(bdir, "dfs/CMakeFiles/dfs.dir/")
                    if not o.endswith("main.cc.o")]
            _run(["ninja", "-C", bdir, "-j", "16"] + objs, log=log)
            # main() is renamed on the command line so that it can be linked
            # into a libFuzzer target: no source change needed.
            _run([cxx, "-std=gnu++17"] + allflags.split() + ["-DUSE_ZLIB", "-Dmain=dfs_main",
                 "-I", os.path.join(REPO, "dfs"), "-c", os.path.join(REPO, "dfs", "main.cc"),
                 "-o", os.path.join(bdir, "dfs_main_renamed.o")], log=log)
            _run([cc] + allflags.split() + ["-Dmain=bbc_main",
                 "-I", os.path.join(REPO, "basic"), "-c", os.path.join(REPO, "basic", "bbcbasic_to_text.c"),
                 "-o", os.path.join(bdir, "bbc_main_renamed.o")], log=log)
        else:
            _run(["cmake", "--build", bdir, "-j", "16", "--target"] + targets, log=log)
        open(stamp, "w").write(time.strftime("%F %T"))
        _prune(variant, keep=bdir)
        return bdir
    finally:
        fcntl.flock(lockf, fcntl.LOCK_UN)
        lockf.close()


def _ninja_objects(bdir, prefix):
    out = _run(["ninja", "-C", bdir, "-t", "targets", "all"]).decode()
    objs = []
    for line in out.splitlines():
        name = line.split(":")[0]
        if name.startswith(prefix) and name.endswith(".o"):
            objs.append(name)
    return objs


def _prune(variant, keep, maxkeep=3):
    dirs = [d for d in glob.glob(os.path.join(BUILD_ROOT, variant + "-*")) if os.path.isdir(d)]
    # variant names may be prefixes of each other (none currently); be exact
    dirs = [d for d in dirs if os.path.basename(d).rsplit("-", 1)[0] == variant]

    def mt(d):
        try:
            return os.stat(os.path.join(d, ".built")).st_mtime
        except OSError:
            return 0
    dirs.sort(key=mt, reverse=True)
    for d in dirs[maxkeep:]:
        if d != keep:
            shutil.rmtree(d, ignore_errors=True)


def tool(bdir, name):
    if name == "dfs":
        return os.path.join(bdir, "dfs", "dfs")
    if name == "bbcbasic_to_text":
        return os.path.join(bdir, "basic", "bbcbasic_to_text")
    raise KeyError(name)


def objects(bdir, which):
    """Object files of a cmake object library / executable inside a build dir."""
    pat = {
        "dfslib": "dfs/CMakeFiles/dfslib.dir/*.o",
        "dfsbase": "dfs/CMakeFiles/dfsbase.dir/*.o",
        "dfsexe": "dfs/CMakeFiles/dfs.dir/*.o",
        "decoder": "basic/CMakeFiles/decoder.dir/*.o",
    }[which]
    return sorted(glob.glob(os.path.join(bdir, pat)))


if __name__ == "__main__":
    t0 = time.time()
    vs = sys.argv[1:] or ["dbg", "asan", "ndebug"]
    h = tree_hash()
    for v in vs:
        t = time.time()
        d = build(v, h)
        print("%s -> %s (%.1fs)" % (v, d, time.time() - t))
    print("total %.1fs" % (time.time() - t0))
