"""Sector-dump containers written from doc/dfs.1 (DISC IMAGE FILES) and doc/mmb.5."""
import gzip
import os
import zlib

from .disc import SECTOR

MMB_TABLE = 8192
MMB_SLOT = 204800


def noninterleaved(sides):
    """side 0 tracks in order, then side 1 if present."""
    return b"".join(sides)


def interleaved(side0, side1, spt):
    """T0S0, T0S1, T1S0, T1S1, ..."""
    tl = spt * SECTOR
    assert len(side0) == len(side1) and len(side0) % tl == 0
    out = bytearray()
    for t in range(len(side0) // tl):
        out += side0[t * tl:(t + 1) * tl]
        out += side1[t * tl:(t + 1) * tl]
    return bytes(out)


def write_mmb(path, slots, boot=(0, 1, 2, 3), default_status=0xFF, names=None, trailing=True):
    """slots: {index: (status_byte, image_bytes or None)}.  Written sparsely."""
    table = bytearray(MMB_TABLE)
    for i in range(4):
        table[i] = boot[i] & 0xFF
        table[4 + i] = (boot[i] >> 8) & 0xFF
    for i in range(511):
        off = 16 * (i + 1)
        table[off + 15] = default_status
    maxslot = -1
    for i, (status, img) in slots.items():
        off = 16 * (i + 1)
        nm = (names or {}).get(i, b"DISC%03d" % i)
        table[off:off + 12] = (nm + b"\0" * 12)[:12]
        table[off + 15] = status
        if img is not None:
            maxslot = max(maxslot, i)
    with open(path, "wb") as fh:
        fh.write(table)
        for i, (status, img) in sorted(slots.items()):
            if img is None:
                continue
            fh.seek(MMB_TABLE + i * MMB_SLOT)
            fh.write(img)
        if trailing and maxslot >= 0:
            end = MMB_TABLE + (maxslot + 1) * MMB_SLOT
            fh.seek(0, os.SEEK_END)
            if fh.tell() < end:
                fh.truncate(end)


def _gz_member(part, level, fname, mtime, extra, comment, hcrc):
    flg = 0
    hdr = bytearray()
    if extra is not None:
        flg |= 4
    if fname is not None:
        flg |= 8
    if comment is not None:
        flg |= 16
    if hcrc:
        flg |= 2
    hdr += bytes([0x1F, 0x8B, 8, flg])
    hdr += int(mtime).to_bytes(4, "little")
    hdr += bytes([2 if level == 9 else (4 if level == 1 else 0), 3])
    if extra is not None:
        hdr += len(extra).to_bytes(2, "little") + extra
    if fname is not None:
        hdr += fname + b"\0"
    if comment is not None:
        hdr += comment + b"\0"
    if hcrc:
        hdr += (zlib.crc32(bytes(hdr)) & 0xFFFF).to_bytes(2, "little")
    co = zlib.compressobj(level, zlib.DEFLATED, -15)
    body = co.compress(part) + co.flush()
    out = bytes(hdr) + body
    out += (zlib.crc32(part) & 0xFFFFFFFF).to_bytes(4, "little")
    out += (len(part) & 0xFFFFFFFF).to_bytes(4, "little")
    return out


def gz(data, level=6, fname=None, mtime=0, members=1, extra=None, comment=None, hcrc=False, align=None,
       align_last=True, tail_bytes=None):
    """gzip `data` (RFC 1952) with optional header fields, split into members.

    align=(modulus, delta): pad the FEXTRA field of each member so that every
    member ends at a file offset == delta (mod modulus) -- this puts member
    boundaries and the end of the file on (or next to) the reader's buffer
    boundaries."""
    if members <= 1 or len(data) < members:
        parts = [data]
    elif tail_bytes and len(data) > tail_bytes + members:
        # the last member holds only the last `tail_bytes` bytes (a short tail after the earlier members)
        head = data[:-tail_bytes]
        n = len(head)
        cuts = [n * i // (members - 1) for i in range(members)]
        parts = [head[cuts[i]:cuts[i + 1]] for i in range(members - 1)] + [data[-tail_bytes:]]
    else:
        n = len(data)
        cuts = [n * i // members for i in range(members + 1)]
        parts = [data[cuts[i]:cuts[i + 1]] for i in range(members)]
    out = bytearray()
    for pi, part in enumerate(parts):
        m = _gz_member(part, level, fname, mtime, extra, comment, hcrc)
        # (align_last=False: the last member keeps its natural length, e.g. a short tail after an aligned boundary)
        if align and (align_last or pi < len(parts) - 1):
            modulus, delta = align
            end = len(out) + len(m)
            pad = (delta - end) % modulus
            if pad:
                ex = extra if extra is not None else None
                if ex is None:
                    pad = (pad - 2) % modulus          # the XLEN field itself takes two bytes
                    ex = b""
                ex2 = ex + bytes(pad)
                if len(ex2) < 65536:
                    m = _gz_member(part, level, fname, mtime, ex2, comment, hcrc)
        out += m
    return bytes(out)


def gunzip_reference(data):
    """Independent referee: returns bytes or raises (member loop, RFC 1952)."""
    out = bytearray()
    rest = data
    if not rest:
        raise ValueError("empty")
    while rest:
        d = zlib.decompressobj(31)
        out += d.decompress(rest)
        if not d.eof:
            raise ValueError("truncated gzip stream")
        rest = d.unused_data
    return bytes(out)
