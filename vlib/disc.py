"""Disc model: catalogue encoder and surface builder, written from the DFS
format documents (beebwiki Acorn DFS disc format, Watford/Opus notes in
doc/dfs.1) -- independent of the readers in /repo.

A *surface spec* is a JSON-able dict:

  {"variant": "acorn"|"watford"|"opus"|"hdfs",
   "tracks": 35|40|80|n, "spt": 10|16|18,
   "fill": {"kind": k, "seed": n},          # content of every sector not otherwise written
   "volumes": [ volume ... ]}               # exactly 1 unless variant == "opus"

  volume = {"label": None|"A".."H", "start_track": int (opus only),
            "title": bytes(<=12), "cycle": int, "boot": 0..3, "total": int,
            "cats": [[entry...]] or [[...],[...]] (watford: sectors 0-1, sectors 2-3)}
  entry  = {"name": bytes(1..7), "dir": int(0..127), "locked": bool,
            "load": 18 bit, "exec": 18 bit, "length": 18 bit, "start": 10 bit,
            "body": {"kind": k, "seed": n} | {"lit": bytes}}
"""
import hashlib

SECTOR = 256


# ------------------------------------------------------------------ bodies

def expand(spec, n):
    """Deterministically expand a body/fill spec to n bytes."""
    if n <= 0:
        return b""
    if "lit" in spec:
        lit = bytes(spec["lit"])
        if not lit:
            lit = b"\0"
        return (lit * (n // len(lit) + 1))[:n]
    kind = spec.get("kind", "rand")
    seed = int(spec.get("seed", 0))
    raw = hashlib.shake_256(b"beeb%d:%s" % (seed, kind.encode())).digest(n)
    if kind == "rand":
        return raw
    if kind == "text":
        # printable text with CRs (and a few LFs / high bytes)
        out = bytearray(n)
        for i, b in enumerate(raw):
            if b < 24:
                out[i] = 0x0D
            elif b < 27:
                out[i] = 0x0A
            elif b < 30:
                out[i] = 0x80 | (b & 0x7F)
            else:
                out[i] = 0x20 + (b % 0x5F)
        return bytes(out)
    if kind == "cr":
        return b"\r" * n
    if kind == "aa":
        # Watford recognition bytes followed by a plausible second catalogue
        head = b"\xAA" * 8 + b"FAKE   $" * 4
        return (head + raw)[:n]
    if kind == "opus16":
        # looks like an Opus sector 16 but incomplete (total sectors 0x1234)
        head = bytes([0x20, 0x12, 0x34, 18, 80, 0, 0, 0, 1, 0, 3, 0])
        return (head + raw)[:n]
    if kind == "zero":
        return b"\0" * n
    if kind == "tag":
        # self-describing pattern; the tag text is carried in spec["tag"]
        t = spec.get("tag", "T").encode()
        return (t * (n // len(t) + 1))[:n]
    raise ValueError(kind)


# ------------------------------------------------------------------ catalogue

def mixed_byte(e):
    return (((e["exec"] >> 16) & 3) << 6 | ((e["length"] >> 16) & 3) << 4
            | ((e["load"] >> 16) & 3) << 2 | ((e["start"] >> 8) & 3))


def encode_catalog_pair(title, cycle, boot, total, entries, flags106=0, title_top=0):
    """Return (sector0, sector1) of a 31-entry DFS catalogue."""
    assert len(entries) <= 31
    s0 = bytearray(SECTOR)
    s1 = bytearray(SECTOR)
    t = (bytes(title) + b"\0" * 12)[:12]
    s0[0:8] = t[0:8]
    s1[0:4] = t[8:12]
    if title_top:
        s0[0] |= 0x80
    s1[4] = cycle & 0xFF
    s1[5] = 8 * len(entries)
    # bits 8-9 of the sector count; a count >= 1024 sets bit 2 as well ("large disc": bit 10 of the count, which the
    # geometry prober honours)
    s1[6] = ((boot & 3) << 4) | ((total >> 8) & 7) | (flags106 & 0xCC)
    s1[7] = total & 0xFF
    for i, e in enumerate(entries):
        off = 8 * (i + 1)
        name = bytes(e["name"])[:7]
        s0[off:off + 7] = name + b" " * (7 - len(name))
        s0[off + 7] = (e["dir"] & 0x7F) | (0x80 if e["locked"] else 0)
        s1[off + 0] = e["load"] & 0xFF
        s1[off + 1] = (e["load"] >> 8) & 0xFF
        s1[off + 2] = e["exec"] & 0xFF
        s1[off + 3] = (e["exec"] >> 8) & 0xFF
        s1[off + 4] = e["length"] & 0xFF
        s1[off + 5] = (e["length"] >> 8) & 0xFF
        s1[off + 6] = mixed_byte(e)
        s1[off + 7] = e["start"] & 0xFF
    return bytes(s0), bytes(s1)


def sectors_of(length):
    return (length + SECTOR - 1) // SECTOR


def volume_origin(surface, vol):
    if surface["variant"] == "opus":
        return vol["start_track"] * surface["spt"]
    return 0


def volume_len(surface, idx):
    """Sectors in volume idx (opus: up to the next volume / end of disc)."""
    total = surface["tracks"] * surface["spt"]
    if surface["variant"] != "opus":
        return total
    vols = surface["volumes"]
    starts = sorted(v["start_track"] * surface["spt"] for v in vols)
    me = vols[idx]["start_track"] * surface["spt"]
    later = [s for s in starts if s > me]
    return (later[0] if later else total) - me


def all_entries(vol):
    out = []
    for cat in vol["cats"]:
        out.extend(cat)
    return out


def body_of(entry):
    return expand(entry["body"], entry["length"])


def build_surface(surface):
    """Return the bytes of one surface (tracks*spt sectors)."""
    nsec = surface["tracks"] * surface["spt"]
    img = bytearray(expand(surface.get("fill", {"kind": "rand", "seed": 0}), nsec * SECTOR))
    variant = surface["variant"]
    vols = surface["volumes"]
    if variant == "opus":
        s16 = bytearray(SECTOR)
        tot = surface.get("opus_total", nsec)
        s16[0] = 0x20
        s16[1] = (tot >> 8) & 0xFF
        s16[2] = tot & 0xFF
        s16[3] = surface.get("opus_spt", 18)
        s16[4] = surface.get("opus_tracks", surface["tracks"]) & 0xFF
        # the table has one two-byte slot per volume LETTER (A..H); an absent volume has start track 0
        used = set()
        for v in vols:
            i = "ABCDEFGH".index(v["label"])
            used.add(i)
            s16[8 + 2 * i] = v["start_track"]
            s16[9 + 2 * i] = 0
        img[16 * SECTOR:17 * SECTOR] = s16
        img[17 * SECTOR:18 * SECTOR] = bytes(SECTOR)
        # unused catalogue slots in track 0 are zero
        for i in range(8):
            if i not in used:
                img[2 * i * SECTOR:(2 * i + 2) * SECTOR] = bytes(2 * SECTOR)
    for i, v in enumerate(vols):
        flags = 0
        if variant == "hdfs":
            flags = 0x08 | (surface.get("hdfs_sides_bit", 0) and 0x04)
        cats = v["cats"]
        s0, s1 = encode_catalog_pair(v["title"], v["cycle"], v["boot"], v["total"], cats[0], flags,
                                     v.get("title_top", 0))
        if variant == "opus":
            base = 2 * "ABCDEFGH".index(v["label"])
        else:
            base = 0
        img[base * SECTOR:(base + 1) * SECTOR] = s0
        img[(base + 1) * SECTOR:(base + 2) * SECTOR] = s1
        if variant == "watford":
            second = cats[1] if len(cats) > 1 else []
            w0, w1 = encode_catalog_pair(b"\xAA" * 8 + b"\0\0\0\0",
                                         v.get("cycle2", v["cycle"]), v["boot"], v["total"], second)
            img[2 * SECTOR:3 * SECTOR] = w0
            img[3 * SECTOR:4 * SECTOR] = w1
        origin = volume_origin(surface, v)
        for e in all_entries(v):
            if e["length"] == 0:
                continue
            pos = (origin + e["start"]) * SECTOR
            body = body_of(e)
            end = min(len(img), pos + len(body))
            if pos < len(img):
                img[pos:end] = body[:end - pos]
    return bytes(img)


# ------------------------------------------------------------------ CRC / renderings (reference)

def crc16_xmodem(data):
    crc = 0
    for b in data:
        crc ^= b << 8
        for _ in range(8):
            if crc & 0x8000:
                crc = ((crc << 1) ^ 0x1021) & 0xFFFF
            else:
                crc = (crc << 1) & 0xFFFF
    return crc


def sign_extend18(a):
    """doc/dfs.1 SIGN EXTENSION OF ADDRESSES: bits 23..18 := bit 17, bits 16..0 unchanged."""
    a &= 0x3FFFF
    if a & 0x20000:
        return a | 0xFC0000
    return a


def render_type(body):
    return body.replace(b"\r", b"\n")


def render_list(body):
    out = bytearray()
    line = 1
    start = True
    for b in body:
        if start:
            out += b"%4d " % line
            line += 1
            start = False
        if b == 0x0D:
            out += b"\n"
            start = True
        else:
            out.append(b)
    return bytes(out)


def render_dump(body):
    out = bytearray()
    for pos in range(0, len(body), 8):
        row = body[pos:pos + 8]
        out += b"%06d" % pos
        for i in range(8):
            if i < len(row):
                out += b" %02X" % row[i]
            else:
                out += b" **"
        out += b" "
        for i in range(8):
            if i < len(row) and 0x20 <= row[i] <= 0x7E:
                out.append(row[i])
            else:
                out += b"."
        out += b"\n"
    return bytes(out)


def display_name(entry):
    return bytes([entry["dir"]]) + b"." + bytes(entry["name"])
