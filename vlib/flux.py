"""Flux-level image writers: IBM 3740 FM and System-34 MFM track encoders,
HFE v1 / v3 and HxC MFM containers.  Written from the format documents
(IBM formats, HxC HFE specification) -- see DESIGN.md appendix A."""
import struct

SECTOR = 256


def crc16_ccitt(data, crc=0xFFFF):
    for b in data:
        crc ^= b << 8
        for _ in range(8):
            crc = ((crc << 1) ^ 0x1021) & 0xFFFF if crc & 0x8000 else (crc << 1) & 0xFFFF
    return crc


# ---------------------------------------------------------------- cell streams
# A track is built as a list of bits (cells), MSB-first per encoded byte.

def fm_byte_cells(data, clock=0xFF):
    out = []
    for i in range(7, -1, -1):
        out.append((clock >> i) & 1)
        out.append((data >> i) & 1)
    return out


class MfmWriter:
    def __init__(self):
        self.cells = []
        self.prev = 0

    def byte(self, b):
        for i in range(7, -1, -1):
            d = (b >> i) & 1
            c = 1 if (self.prev == 0 and d == 0) else 0
            self.cells.append(c)
            self.cells.append(d)
            self.prev = d

    def raw16(self, word, last_data_bit):
        for i in range(15, -1, -1):
            self.cells.append((word >> i) & 1)
        self.prev = last_data_bit

    def bytes(self, bs):
        for b in bs:
            self.byte(b)


def default_layout(encoding):
    if encoding == "FM":
        return {"gap1": 16, "sync": 6, "gap2": 11, "gap3": 10, "index_mark": False}
    return {"gap4a": 40, "sync": 12, "gap2": 22, "gap3": 16, "index_mark": False}


def fm_track(track, side, sectors, order=None, layout=None, track_bytes=3125, head_id=None, fieldmap=None,
             size_code=1, quirks=None):
    """quirks: {sector: {"size_code": n, "cyl": c, "head": h, "mark": 0xF8, "data": bytes (recorded instead of the
    sector's data), "crc_xor": int (xor-ed into the data CRC), "dup": True (sector recorded twice)}}"""
    """sectors: list of 256-byte blobs indexed by logical sector number."""
    lay = dict(default_layout("FM"))
    if layout:
        lay.update(layout)
    n = len(sectors)
    order = list(order) if order is not None else list(range(n))
    cells = []

    def put(b, clock=0xFF):
        cells.extend(fm_byte_cells(b, clock))
    if lay.get("index_mark"):
        for _ in range(lay.get("gap0", 40)):
            put(0xFF)
        for _ in range(6):
            put(0x00)
        put(0xFC, 0xD7)
    for _ in range(lay["gap1"]):
        put(0xFF)
    head = side if head_id is None else head_id
    quirks = quirks or {}
    order = [s_ for s_ in order for _ in range(2 if quirks.get(s_, {}).get("dup") else 1)]
    for sec in order:
        q = quirks.get(sec, {})
        if "orphan" in q:
            # an extra ID field with no record of its own in front of this sector (gap bytes, then the real sector)
            for _ in range(lay["sync"]):
                put(0x00)
            put(0xFE, 0xC7)
            oid = bytes([track & 0xFF, head & 0xFF, q["orphan"].get("rec", sec) & 0xFF, size_code])
            ocrc = crc16_ccitt(bytes([0xFE]) + oid)
            for b in oid:
                put(b)
            put(ocrc >> 8)
            put(ocrc & 0xFF)
            for _ in range(q["orphan"].get("gap", 60)):
                put(0xFF)
        for _ in range(lay["sync"]):
            put(0x00)
        idpos = len(cells)
        put(0xFE, 0xC7)
        idf = bytes([q.get("cyl", track) & 0xFF, q.get("head", head) & 0xFF, sec, q.get("size_code", size_code)])
        crc = crc16_ccitt(bytes([0xFE]) + idf)
        for b in idf:
            put(b)
        put(crc >> 8)
        put(crc & 0xFF)
        if q.get("id_only"):
            # an ID field with no record behind it: a short gap, then the next sector follows at once
            for _ in range(q.get("id_gap", 3)):
                put(0xFF)
            if fieldmap is not None:
                fieldmap.append({"sector": sec, "id": (idpos, idpos + 7 * 16), "data": (len(cells), len(cells))})
            continue
        for _ in range(lay["gap2"]):
            put(0xFF)
        for _ in range(lay["sync"]):
            put(0x00)
        dpos = len(cells)
        mark = q.get("mark", 0xFB)
        put(mark, 0xC7)
        data = sectors[sec]
        if "size_code" in q:
            want_len = 128 << q["size_code"]
            data = (data * (want_len // max(1, len(data)) + 1))[:want_len]
        crc = crc16_ccitt(bytes([mark]) + data) ^ q.get("crc_xor", 0)
        data = q.get("data", data)
        for b in data:
            put(b)
        put(crc >> 8)
        put(crc & 0xFF)
        dend = len(cells)
        if fieldmap is not None:
            fieldmap.append({"sector": sec, "id": (idpos, idpos + 7 * 16), "data": (dpos, dend)})
        for _ in range(lay["gap3"]):
            put(0xFF)
    want = track_bytes * 16
    while len(cells) < want:
        put(0xFF)
    return cells


def mfm_track(track, side, sectors, order=None, layout=None, track_bytes=6250, head_id=None, fieldmap=None,
              size_code=1, quirks=None):
    lay = dict(default_layout("MFM"))
    if layout:
        lay.update(layout)
    n = len(sectors)
    order = list(order) if order is not None else list(range(n))
    w = MfmWriter()
    if lay.get("index_mark"):
        for _ in range(lay.get("gap0", 80)):
            w.byte(0x4E)
        for _ in range(12):
            w.byte(0x00)
        for _ in range(3):
            w.raw16(0x5224, 0)      # C2 with missing clock
        w.byte(0xFC)
        for _ in range(lay.get("gap4a", 50)):
            w.byte(0x4E)
    else:
        for _ in range(lay["gap4a"]):
            w.byte(0x4E)
    head = side if head_id is None else head_id
    quirks = quirks or {}
    order = [s_ for s_ in order for _ in range(2 if quirks.get(s_, {}).get("dup") else 1)]
    for sec in order:
        q = quirks.get(sec, {})
        if "orphan" in q:
            for _ in range(lay["sync"]):
                w.byte(0x00)
            for _ in range(3):
                w.raw16(0x4489, 1)
            oid = bytes([0xFE, track & 0xFF, head & 0xFF, q["orphan"].get("rec", sec) & 0xFF, size_code])
            ocrc = crc16_ccitt(b"\xA1\xA1\xA1" + oid)
            w.bytes(oid)
            w.byte(ocrc >> 8)
            w.byte(ocrc & 0xFF)
            for _ in range(q["orphan"].get("gap", 60)):
                w.byte(0x4E)
        for _ in range(lay["sync"]):
            w.byte(0x00)
        idpos = len(w.cells)
        for _ in range(3):
            w.raw16(0x4489, 1)      # A1 with missing clock
        idf = bytes([0xFE, q.get("cyl", track) & 0xFF, q.get("head", head) & 0xFF, sec, q.get("size_code", size_code)])
        crc = crc16_ccitt(b"\xA1\xA1\xA1" + idf)
        w.bytes(idf)
        w.byte(crc >> 8)
        w.byte(crc & 0xFF)
        idend = len(w.cells)
        if q.get("id_only"):
            for _ in range(q.get("id_gap", 3)):
                w.byte(0x4E)
            if fieldmap is not None:
                fieldmap.append({"sector": sec, "id": (idpos, idend), "data": (idend, idend)})
            continue
        for _ in range(lay["gap2"]):
            w.byte(0x4E)
        for _ in range(lay["sync"]):
            w.byte(0x00)
        dpos = len(w.cells)
        for _ in range(3):
            w.raw16(0x4489, 1)
        data = sectors[sec]
        mark = q.get("mark", 0xFB)
        if "size_code" in q:
            want_len = 128 << q["size_code"]
            data = (data * (want_len // max(1, len(data)) + 1))[:want_len]
        crc = crc16_ccitt(b"\xA1\xA1\xA1" + bytes([mark]) + data) ^ q.get("crc_xor", 0)
        data = q.get("data", data)
        w.byte(mark)
        w.bytes(data)
        w.byte(crc >> 8)
        w.byte(crc & 0xFF)
        dend = len(w.cells)
        if fieldmap is not None:
            fieldmap.append({"sector": sec, "id": (idpos, idend), "data": (dpos, dend)})
        for _ in range(lay["gap3"]):
            w.byte(0x4E)
    want = track_bytes * 16
    while len(w.cells) < want:
        w.byte(0x4E)
    return w.cells


def cells_to_bytes_msb(cells):
    out = bytearray((len(cells) + 7) // 8)
    for i, c in enumerate(cells):
        if c:
            out[i >> 3] |= 0x80 >> (i & 7)
    return bytes(out)


def cells_to_bytes_lsb(cells):
    out = bytearray((len(cells) + 7) // 8)
    for i, c in enumerate(cells):
        if c:
            out[i >> 3] |= 1 << (i & 7)
    return bytes(out)


def rev8(b):
    return int("{:08b}".format(b)[::-1], 2)


# ---------------------------------------------------------------- HFE

def hfe_side_bytes(cells, encoding, ops=None):
    """HFE stores cells LSB-first; FM is stored at double rate (raw bit 2i = 0,
    2i+1 = cell i).  ops (HFEv3 only): {data_byte_index: [(kind, arg), ...]} with
    kinds nop / setindex / setbitrate(arg) / rand(arg = number of consecutive bytes replaced by the RAND opcode) /
    skipbits(arg & 7 = number of bits of the
    following byte that carry no data, arg >> 3 = the don't-care content of those bits;
    the remaining 8-(arg&7) bits continue the cell stream)."""
    if encoding == "FM":
        raw = bytearray(2 * len(cells))
        raw[1::2] = bytes(cells)
    else:
        raw = bytearray(cells)
    out = bytearray()
    pos = 0
    nbytes = 0
    n = len(raw)
    ops = ops or {}

    def pack(bits):
        b = 0
        for i, c in enumerate(bits):
            if c:
                b |= 1 << i
        return b
    rand_left = 0
    while pos < n:
        for kind, arg in ops.get(nbytes, ()):
            if kind == "rand":
                rand_left = max(rand_left, int(arg))      # this and the next arg-1 bytes are RAND (weak) bytes
                continue
            if kind == "nop":
                out.append(rev8(0xF0))
            elif kind == "setindex":
                out.append(rev8(0xF1))
            elif kind == "setbitrate":
                out.append(rev8(0xF2))
                out.append(rev8(arg & 0xFF))
            elif kind == "skipbits":
                out.append(rev8(0xF3))
                out.append(rev8(arg & 7))
                k = arg & 7
                fill = arg >> 3           # what the k skipped ("don't care") bits hold
                bits = [(fill >> i) & 1 for i in range(k)] + list(raw[pos:pos + 8 - k])
                pos += 8 - k
                bits += [0] * (8 - len(bits))
                out.append(pack(bits))
        if rand_left > 0:
            # HFEv3 RAND opcode (F4) + the byte it applies to: that byte's cells are weak (the reader must not rely
            # on them); the stream keeps its length
            out.append(rev8(0xF4))
            bits = list(raw[pos:pos + 8])
            bits += [0] * (8 - len(bits))
            out.append(pack(bits))
            pos += 8
            nbytes += 1
            rand_left -= 1
            continue
        bits = list(raw[pos:pos + 8])
        pos += 8
        bits += [0] * (8 - len(bits))
        out.append(pack(bits))
        nbytes += 1
    return bytes(out)


def build_hfe(tracks_cells, nsides, encoding, version=1, v3ops=None, bitrate=250, pad_last=True):
    """tracks_cells[t][side] = list of cells.  Returns the file bytes."""
    ntracks = len(tracks_cells)
    hdr = bytearray(b"\xFF" * 512)
    hdr[0:8] = b"HXCPICFE" if version == 1 else b"HXCHFEV3"
    hdr[8] = 0
    hdr[9] = ntracks
    hdr[10] = nsides
    hdr[11] = 0 if encoding == "MFM" else 2
    struct.pack_into("<H", hdr, 12, bitrate)
    struct.pack_into("<H", hdr, 14, 0)
    hdr[16] = 7
    hdr[17] = 1
    struct.pack_into("<H", hdr, 18, 1)
    hdr[20] = 0xFF         # write allowed
    hdr[21] = 0xFF         # single step
    hdr[22] = 0xFF
    hdr[23] = 0xFF
    hdr[24] = 0xFF
    hdr[25] = 0xFF
    lut = bytearray(b"\xFF" * 512)
    body = bytearray()
    block = 2
    for t in range(ntracks):
        sides = []
        for sd in range(2):
            if sd < nsides:
                ops = v3ops(t, sd) if (v3ops and version == 3) else None
                sb = hfe_side_bytes(tracks_cells[t][sd], encoding, ops)
            else:
                sb = b""
            sides.append(sb)
        ln = max(len(sides[0]), len(sides[1]))
        if nsides == 1:
            sides[1] = bytes(ln)
        # pad sides to equal length
        pad0 = 0x0F if version == 3 else 0x00
        sides = [s + bytes([rev8(0xF0) if version == 3 else 0]) * (ln - len(s)) for s in sides]
        nblk = (ln + 255) // 256
        tdata = bytearray()
        for b in range(nblk):
            for sd in range(2):
                chunk = sides[sd][b * 256:(b + 1) * 256]
                chunk = chunk + bytes([rev8(0xF0) if version == 3 else 0]) * (256 - len(chunk))
                tdata += chunk
        struct.pack_into("<HH", lut, 4 * t, block, 2 * ln)
        padded = (len(tdata) + 511) // 512 * 512
        if pad_last or t + 1 < ntracks:
            tdata += bytes(padded - len(tdata))
        else:
            # the file ends with the last byte the LUT declares for the last track (no padding to 512)
            tdata = tdata[:2 * ln] if 2 * ln <= len(tdata) else tdata
        body += tdata
        block += padded // 512
    return bytes(hdr) + bytes(lut) + bytes(body)


def hfe_from_sides(sides, ntracks, spt, encoding, version=1, layout=None, order_fn=None, v3ops=None,
                   track_bytes=None, head_id_fn=None, quirks_fn=None, pad_last=True):
    """sides: list of surface images (bytes).  Encodes every track."""
    tb = track_bytes or (3125 if encoding == "FM" else 6250)
    enc = fm_track if encoding == "FM" else mfm_track
    tracks = []
    for t in range(ntracks):
        per = []
        for sd, img in enumerate(sides):
            secs = [img[(t * spt + s) * SECTOR:(t * spt + s + 1) * SECTOR] for s in range(spt)]
            order = order_fn(t, sd) if order_fn else None
            hid = head_id_fn(t, sd) if head_id_fn else None
            per.append(enc(t, sd, secs, order=order, layout=layout, track_bytes=tb, head_id=hid,
                           quirks=quirks_fn(t, sd) if quirks_fn else None))
        tracks.append(per)
    return build_hfe(tracks, len(sides), encoding, version=version, v3ops=v3ops, pad_last=pad_last)


# ---------------------------------------------------------------- HxC MFM

def build_hxcmfm(tracks_cells, nsides, rpm=300, bitrate=250):
    ntracks = len(tracks_cells)
    hdr = b"HXCMFM\0" + struct.pack("<HBHHBI", ntracks, nsides, rpm, bitrate, 4, 19)
    recs = bytearray()
    body = bytearray()
    off = 19 + 11 * ntracks * nsides
    off = (off + 0x1FF) // 0x200 * 0x200 if False else off
    datas = []
    for t in range(ntracks):
        for sd in range(nsides):
            d = cells_to_bytes_msb(tracks_cells[t][sd])
            datas.append((t, sd, d))
    pos = off
    for t, sd, d in datas:
        recs += struct.pack("<HBII", t, sd, len(d), pos)
        pos += len(d)
        body += d
    return hdr + bytes(recs) + bytes(body)


def hxcmfm_from_sides(sides, ntracks, spt, layout=None, order_fn=None, track_bytes=6250, quirks_fn=None):
    tracks = []
    for t in range(ntracks):
        per = []
        for sd, img in enumerate(sides):
            secs = [img[(t * spt + s) * SECTOR:(t * spt + s + 1) * SECTOR] for s in range(spt)]
            order = order_fn(t, sd) if order_fn else None
            per.append(mfm_track(t, sd, secs, order=order, layout=layout, track_bytes=track_bytes,
                                 quirks=quirks_fn(t, sd) if quirks_fn else None))
        tracks.append(per)
    return build_hxcmfm(tracks, len(sides))
