"""libFuzzer campaigns: build a target against the `fuzz` variant objects, run
16 independent processes, collect crash artifacts and statistics."""
import glob
import hashlib
import os
import re
import shutil
import subprocess
import tempfile
import time

from . import build as buildmod
from . import runtool

VERIF = buildmod.VERIF
FUZZ_FLAGS = ["-g", "-O1", "-fsanitize=fuzzer,address,undefined", "-fno-sanitize-recover=undefined",
              "-fno-omit-frame-pointer"]


def build_target(bdir, name):
    """Link /verif/fuzz/<name>.{c,cc} with the objects of the fuzz build."""
    out = os.path.join(bdir, "targets", name)
    src_c = os.path.join(VERIF, "fuzz", name + ".c")
    src_cc = os.path.join(VERIF, "fuzz", name + ".cc")
    src = src_c if os.path.exists(src_c) else src_cc
    if os.path.exists(out) and os.stat(out).st_mtime >= os.stat(src).st_mtime:
        return out
    os.makedirs(os.path.dirname(out), exist_ok=True)
    repo = buildmod.REPO
    if name.startswith("fuzz_basic"):
        objs = buildmod.objects(bdir, "decoder") + [os.path.join(bdir, "bbc_main_renamed.o")]
        cmd = (["clang"] + FUZZ_FLAGS + ["-D" + buildmod.GUARD, "-I", os.path.join(repo, "basic"), src]
               + objs + ["-o", out + ".tmp"])
    else:
        objs = buildmod.objects(bdir, "dfslib") + buildmod.objects(bdir, "dfsbase")
        if name == "fuzz_dfs":
            objs += [o for o in buildmod.objects(bdir, "dfsexe") if not o.endswith("main.cc.o")]
            objs.append(os.path.join(bdir, "dfs_main_renamed.o"))
        cmd = (["clang++", "-std=gnu++17"] + FUZZ_FLAGS + ["-D" + buildmod.GUARD, "-DUSE_ZLIB",
               "-I", os.path.join(repo, "dfs"), src] + objs + ["-lz", "-o", out + ".tmp"])
    p = subprocess.run(cmd, stdout=subprocess.PIPE, stderr=subprocess.STDOUT)
    if p.returncode != 0:
        raise RuntimeError("cannot build fuzz target %s:\n%s" % (name, p.stdout.decode()[-4000:]))
    os.replace(out + ".tmp", out)
    return out


def campaign(binary, seeds, seconds, seed, jobs=16, max_len=4096, runs=None, extra_args=(), timeout_s=5,
             dict_path=None, env_extra=None):
    """Run `jobs` independent libFuzzer processes.  Returns dict with execs,
    crash artifact paths (copied to a temp dir the caller must remove), corpus dir."""
    os.makedirs(runtool.WORK_ROOT, exist_ok=True)
    work = tempfile.mkdtemp(prefix="fuzz-", dir=runtool.WORK_ROOT)
    procs = []
    env = dict(runtool.BASE_ENV)
    env["ASAN_OPTIONS"] = "abort_on_error=1:detect_leaks=0:allocator_may_return_null=1:symbolize=1"
    if env_extra:
        env.update(env_extra)
    for j in range(jobs):
        cdir = os.path.join(work, "corpus%d" % j)
        adir = os.path.join(work, "art%d" % j)
        os.makedirs(cdir)
        os.makedirs(adir)
        s = (seed * 100 + j + 1) & 0x7FFFFFFF or 1
        cmd = [binary, cdir]
        if seeds and os.path.isdir(seeds):
            cmd.append(seeds)
        cmd += ["-seed=%d" % s, "-max_len=%d" % max_len, "-timeout=%d" % timeout_s,
                "-malloc_limit_mb=256", "-rss_limit_mb=2048", "-detect_leaks=0", "-close_fd_mask=0",
                "-artifact_prefix=" + adir + "/", "-print_final_stats=1", "-max_total_time=%d" % int(seconds),
                "-len_control=50", "-reload=0"]
        if runs:
            cmd.append("-runs=%d" % runs)
        if dict_path:
            cmd.append("-dict=" + dict_path)
        cmd += list(extra_args)
        log = open(os.path.join(work, "log%d" % j), "wb")
        procs.append((subprocess.Popen(cmd, stdout=log, stderr=subprocess.STDOUT, env=env, cwd=work), log))
    t0 = time.time()
    for p, log in procs:
        try:
            p.wait(timeout=max(10, seconds + 120 - (time.time() - t0)))
        except subprocess.TimeoutExpired:
            p.kill()
            p.wait()
        log.close()
    execs = 0
    crashes = []
    other = []
    for j in range(jobs):
        txt = open(os.path.join(work, "log%d" % j), "rb").read().decode("latin-1")
        m = re.search(r"stat::number_of_executed_units:\s*(\d+)", txt)
        if m:
            execs += int(m.group(1))
        else:
            # crashed run: take the last #N line
            ms = re.findall(r"^#(\d+)\s", txt, re.M)
            if ms:
                execs += int(ms[-1])
        for a in sorted(glob.glob(os.path.join(work, "art%d" % j, "*"))):
            base = os.path.basename(a)
            if base.startswith(("crash-", "leak-")):
                crashes.append((a, txt[-3000:]))
            else:
                other.append(a)
    # merged corpus (distinct by content hash)
    merged = os.path.join(work, "merged")
    os.makedirs(merged)
    seen = set()
    for j in range(jobs):
        for f in glob.glob(os.path.join(work, "corpus%d" % j, "*")):
            h = os.path.basename(f)
            if h not in seen:
                seen.add(h)
                shutil.copy(f, os.path.join(merged, h))
    return {"work": work, "execs": execs, "crashes": crashes, "other_artifacts": other, "corpus": merged,
            "corpus_files": len(seen)}


def replay(binary, path, timeout=30, env_extra=None):
    env = dict(runtool.BASE_ENV)
    env["ASAN_OPTIONS"] = "abort_on_error=1:detect_leaks=0:allocator_may_return_null=1:symbolize=1"
    if env_extra:
        env.update(env_extra)
    p = subprocess.run([binary, "-timeout=10", "-malloc_limit_mb=256", "-rss_limit_mb=2048", path], stdout=subprocess.PIPE,
                       stderr=subprocess.STDOUT, env=env, timeout=timeout + 60)
    return p.returncode, p.stdout


def count_nontrivial(binary, corpus_dir):
    """Replay the merged corpus with VERIF_NTLOG set; the target appends one
    line per non-trivial input."""
    files = sorted(glob.glob(os.path.join(corpus_dir, "*")))
    if not files:
        return 0
    log = os.path.join(corpus_dir, "..", "ntlog")
    env = dict(runtool.BASE_ENV)
    env["VERIF_NTLOG"] = log
    env["ASAN_OPTIONS"] = "abort_on_error=1:detect_leaks=0:allocator_may_return_null=1"
    for i in range(0, len(files), 2000):
        subprocess.run([binary, "-timeout=10", "-malloc_limit_mb=256"] + files[i:i + 2000], stdout=subprocess.DEVNULL,
                       stderr=subprocess.DEVNULL, env=env)
    try:
        with open(log) as fh:
            return sum(1 for _ in fh)
    except OSError:
        return 0
