"""Hypothesis strategies for disc surfaces (layout-first construction)."""
from hypothesis import strategies as st

from . import disc

# DFS file-name characters: printable ASCII except space and . : # * "
DFS_CHARS = [c for c in range(0x21, 0x7F) if chr(c) not in '.:#*"']
PLAIN_CHARS = [c for c in range(0x21, 0x7F) if chr(c).isalnum() or chr(c) in "!$%&'+-=@_~"]
REGEX_META = [ord(c) for c in "^$[]()\\+?|{}-!"]


def size_small(lo, hi):
    """integers biased to the low end, using construction (no filtering)."""
    if hi <= lo:
        return st.just(lo)
    return st.one_of(st.integers(lo, min(hi, lo + 3)), st.integers(lo, hi))


body_spec = st.one_of(
    st.builds(lambda s: {"kind": "rand", "seed": s}, st.integers(0, 2 ** 20)),
    st.builds(lambda s: {"kind": "rand", "seed": s}, st.integers(0, 2 ** 20)),
    st.builds(lambda s: {"kind": "text", "seed": s}, st.integers(0, 2 ** 20)),
    st.just({"kind": "cr", "seed": 0}),
    st.builds(lambda b: {"lit": b}, st.binary(min_size=1, max_size=12)),
)

addr18 = st.one_of(
    st.sampled_from([0, 1, 0x7FFF, 0x8000, 0xFFFF, 0x10000, 0x1FFFF, 0x20000, 0x2FFFF, 0x30000, 0x3FFFF,
                     0x31900, 0x21900, 0x11900]),
    st.integers(0, 0x3FFFF))


@st.composite
def name_set(draw, n, chars=None, dirs=None, min_len=1):
    """n distinct (dir, name) pairs, unique up to case."""
    chars = chars or DFS_CHARS
    dirs = dirs or chars
    out = []
    seen = set()
    dir_st = st.one_of(st.just(ord("$")), st.sampled_from(dirs))
    for i in range(n):
        nm = draw(st.lists(st.sampled_from(chars), min_size=min_len, max_size=7))
        d = draw(dir_st)
        if out and draw(st.integers(0, 5)) == 0:
            # a near-twin of an earlier name in the same directory: one character replaced by the character that differs
            # from it only in bit 5 (0x20).  For letters that is the other case (same DFS name -- rejected below); for
            # '[' / '{', '\\' / '|', ']' / '}', '^' / '~', '@' / '`', '_' / DEL it is a different, legal name that a
            # sloppy case fold confuses with the first.  A proper prefix of an earlier name is the other kind of twin.
            d0, nm0 = out[draw(st.integers(0, len(out) - 1))]
            tw = list(nm0)
            cand = [k for k, ch in enumerate(tw) if (ch ^ 0x20) in chars and not chr(ch).isalpha()]
            if cand:
                k = cand[draw(st.integers(0, len(cand) - 1))]
                tw[k] ^= 0x20
                nm, d = tw, d0
            elif len(tw) > 1:
                nm, d = tw[:-1], d0
        key = (chr(d).lower(), bytes(nm).lower())
        if key in seen:
            # make unique by construction: replace with an index-derived name
            k = i
            while True:
                nm = list(b"F%d" % k)
                key = (chr(d).lower(), bytes(nm).lower())
                if key not in seen:
                    break
                k += 100
        seen.add(key)
        out.append((d, bytes(nm)))
    return out


@st.composite
def layout(draw, lo, hi, maxfiles, zero_ok=True, big_ok=True, dense=False):
    """List of (start, length) with ascending, non-overlapping extents inside [lo, hi).

    Zero-length files get a start sector but occupy nothing."""
    n = draw(st.one_of(st.integers(0, min(4, maxfiles)), st.integers(0, maxfiles),
                       st.just(maxfiles)) if not dense else st.integers(0, maxfiles))
    out = []
    cursor = lo
    for _ in range(n):
        gap = draw(st.one_of(st.just(0), st.integers(0, 3), st.integers(0, 60)))
        start = cursor + gap
        avail = hi - start
        if avail <= 0:
            if zero_ok:
                out.append((min(start, hi), 0))
            continue
        nsec = draw(st.one_of(
            st.just(0) if zero_ok else st.just(1),
            st.integers(1, 3), st.integers(1, 3), st.integers(1, 12),
            st.integers(1, max(1, avail)) if big_ok else st.integers(1, min(avail, 12))))
        nsec = min(nsec, avail, 1023)
        if nsec == 0:
            out.append((start, 0))
            continue
        rem = draw(st.sampled_from([0, 0, 1, 255, 128, 17]))
        length = (nsec - 1) * 256 + (rem if rem else 256)
        length = min(length, 0x3FFFF)
        out.append((start, length))
        cursor = start + nsec
    return out


def title_st(full=False):
    body = st.lists(st.one_of(st.integers(0x20, 0x7E), st.integers(0x21, 0x7E)), min_size=0, max_size=12)

    def mk(b, top, nul):
        t = bytearray((c | 0x80) if (top >> i) & 1 else c for i, c in enumerate(b))
        if nul is not None and t:
            # a NUL inside the 12 bytes with stale bytes of an earlier, longer title behind it: the title is a C
            # string split over the two catalogue sectors and ends at its first NUL (dfs_catalog.cc convert_title)
            t[nul % len(t)] = 0
        return bytes(t)
    return st.builds(mk, body, st.one_of(st.just(0), st.integers(0, 4095)),
                     st.one_of(st.none(), st.none(), st.none(), st.integers(0, 11)))


@st.composite
def entries_for(draw, lo, hi, maxfiles, chars=None, dirs=None, zero_ok=True, big_ok=True,
                mixed_exhaust=None):
    lay = draw(layout(lo, hi, maxfiles, zero_ok=zero_ok, big_ok=big_ok))
    names = draw(name_set(len(lay), chars=chars, dirs=dirs))
    ents = []
    for (start, length), (d, nm) in zip(lay, names):
        ents.append({"name": nm, "dir": d, "locked": draw(st.booleans()),
                     "load": draw(addr18), "exec": draw(addr18), "length": length, "start": start,
                     "body": draw(body_spec)})
    # catalogue order: descending start sector (what every DFS writes)
    ents.sort(key=lambda e: -e["start"])
    return ents


GEOMS_SD = [(40, 10), (80, 10), (35, 10)]
GEOMS_DD = [(40, 18), (80, 18), (35, 18)]


@st.composite
def surface(draw, variants=("acorn", "watford", "opus"), geoms=None, chars=None, dirs=None,
            zero_ok=True, big_ok=True, tracks_full=True, opus_geoms=None):
    variant = draw(st.sampled_from(variants))
    if variant == "opus":
        tracks, spt = draw(st.sampled_from(opus_geoms or GEOMS_DD))
    else:
        tracks, spt = draw(st.sampled_from(geoms or (GEOMS_SD + GEOMS_DD)))
    nsec = tracks * spt
    fill = {"kind": "rand", "seed": draw(st.integers(0, 1000))}
    s = {"variant": variant, "tracks": tracks, "spt": spt, "fill": fill, "volumes": []}
    if variant == "opus":
        nvol = draw(st.integers(1, 8))
        if tracks == 80 and nvol == 1:
            nvol = 2
        # ascending start tracks, each volume >= 1 track and <= 56 tracks (10-bit total)
        remaining = tracks - 1
        starts = []
        t = 1
        for i in range(nvol):
            starts.append(t)
            left_after = nvol - i - 1
            maxlen = min(56, tracks - t - left_after)
            minlen = 1
            if i == nvol - 1:
                ln = tracks - t
            else:
                # leave the remaining volumes able to cover the rest (<=56 tracks each)
                need = tracks - t - 56 * left_after
                minlen = max(1, need)
                ln = draw(size_small(minlen, max(minlen, maxlen)))
            t += ln
        # volume letters: usually the prefix A.., sometimes with gaps (e.g. A and C present, B absent)
        letters = list("ABCDEFGH"[:nvol])
        if nvol < 8 and draw(st.integers(0, 3)) == 0:
            if nvol == 1 or draw(st.integers(0, 5)) == 0:
                # (rarely) volume A itself is absent
                letters = sorted(draw(st.lists(st.sampled_from("ABCDEFGH"), min_size=nvol, max_size=nvol, unique=True)))
            else:
                letters = ["A"] + sorted(draw(st.lists(st.sampled_from("BCDEFGH"), min_size=nvol - 1,
                                                        max_size=nvol - 1, unique=True)))
        s["opus_letters_with_gap"] = letters != list("ABCDEFGH"[:nvol])
        if nvol >= 2 and draw(st.integers(0, 3)) == 0:
            # the letters need not follow the order of the volumes on the disc (B may lie in front of A): a volume
            # ends where the physically next one begins, whatever its letter
            k = draw(st.integers(1, nvol - 1))
            letters = letters[k:] + letters[:k]
            s["opus_letters_not_in_disc_order"] = True
        for i, stt in enumerate(starts):
            end = starts[i + 1] if i + 1 < len(starts) else tracks
            vlen = (end - stt) * spt
            ents = draw(entries_for(0, vlen, 31, chars, dirs, zero_ok, big_ok))
            s["volumes"].append({"label": letters[i], "start_track": stt,
                                 "title": draw(title_st()), "cycle": draw(st.integers(0, 255)),
                                 "boot": draw(st.integers(0, 3)), "total": min(vlen, 1023), "cats": [ents]})
        return s
    total = nsec if nsec <= 1023 else draw(st.sampled_from([1023, 1000, 721, 800]))
    if variant == "watford" and total > 0x120 and draw(st.integers(0, 3)) == 0:
        # a first-catalogue file whose start sector has low byte 2 (0x102 / 0x202 / 0x302): the Watford
        # recognition must look at all ten bits of the start sector
        st_sec = draw(st.sampled_from([x for x in (0x102, 0x202, 0x302) if x + 4 < total]))
        low = draw(entries_for(4, st_sec, 30, chars, dirs, zero_ok, False))
        high = draw(entries_for(st_sec + 3, total, 31, chars, dirs, zero_ok, False))
        used = {(chr(e["dir"]).lower(), bytes(e["name"]).lower()) for e in low + high}
        nm = b"AT102"
        k = 0
        while ("$", nm.lower()) in used:
            k += 1
            nm = b"AT%d" % k
        # names in the two halves must also be distinct from each other
        seen = set()
        for e in low + high:
            key = (chr(e["dir"]).lower(), bytes(e["name"]).lower())
            k = len(seen)
            while key in seen:
                # (the counter must advance: with a small alphabet the first replacement can itself be taken)
                e["name"] = (bytes(e["name"])[:4] + b"%d" % (k % 900))[:7]
                key = (chr(e["dir"]).lower(), bytes(e["name"]).lower())
                k += 1
            seen.add(key)
        special = {"name": nm, "dir": ord("$"), "locked": draw(st.booleans()), "load": draw(addr18),
                   "exec": draw(addr18), "length": 600, "start": st_sec, "body": draw(body_spec)}
        cats = [[special] + low, high]
        s["volumes"].append({"label": None, "title": draw(title_st()), "cycle": draw(st.integers(0, 255)),
                             "boot": draw(st.integers(0, 3)), "total": total, "cats": cats})
        return s
    if variant == "watford":
        ents = draw(entries_for(4, total, 62, chars, dirs, zero_ok, big_ok))
        # ents is descending by start; the second catalogue (sectors 2-3) holds the
        # files nearer the end of the disc
        n = len(ents)
        k_lo = max(0, n - 31)
        k_hi = min(31, n)
        k = draw(st.one_of(st.just(k_lo), st.just(k_hi), st.integers(k_lo, k_hi)))
        cats = [ents[k:], ents[:k]]     # cats[0]: sectors 0-1 (lower files), cats[1]: sectors 2-3
    else:
        ents = draw(entries_for(2, total, 31, chars, dirs, zero_ok, big_ok))
        cats = [ents]
    s["volumes"].append({"label": None, "title": draw(title_st()), "cycle": draw(st.integers(0, 255)),
                         "boot": draw(st.integers(0, 3)), "total": total, "cats": cats})
    return s


def expected_geometry_1sided(surface_spec):
    """Geometry documented for a one-sided sector dump: the smallest of 35/40/80
    tracks that holds the catalogue's sector count (18 spt for double density)."""
    spt = surface_spec["spt"]
    if surface_spec["variant"] == "opus":
        return surface_spec["tracks"], spt
    total = surface_spec["volumes"][0]["total"]
    for t in (35, 40, 80):
        if t * spt >= total:
            return t, spt
    return None
