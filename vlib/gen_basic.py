"""Grammar-based generator of well-formed tokenised BBC BASIC programs."""
from hypothesis import strategies as st

from . import ref_basic as rb

LOOP = (0xE3, 0xED, 0xF5, 0xFD)
MAXBODY = 251


def _single_tokens(dialect):
    v = rb.valid_single_bytes(dialect)
    toks = [b for b in v if b >= 0x7F or b < 0x20]
    return toks or [0xF1]


@st.composite
def item(draw, dialect):
    d = rb.CANON[dialect]
    kind = draw(st.sampled_from(["tok", "tok", "tok", "loop", "ascii", "ascii", "str", "str", "lineno", "ext",
                                 "rem", "ctl"]))
    if kind == "tok":
        return bytes([draw(st.sampled_from(_single_tokens(dialect)))])
    if kind == "loop":
        return bytes([draw(st.sampled_from(LOOP))])
    if kind == "ascii":
        return bytes(draw(st.lists(st.sampled_from([c for c in range(0x20, 0x7F) if c != 0x22]),
                                   min_size=1, max_size=10)))
    if kind == "ctl":
        lo = [c for c in range(0x11, 0x20) if not (d == "Windows" and c >= 0x18)]
        return bytes([draw(st.sampled_from(lo))])
    if kind == "str":
        inner = draw(st.lists(st.one_of(st.integers(0x20, 0x7E), st.integers(1, 255),
                                        st.sampled_from(LOOP + (0x8D, 0xC6, 0xC7, 0xC8, 0x85, 0x0D))),
                              max_size=14))
        inner = bytes(c for c in inner if c != 0x22)
        if draw(st.integers(0, 5)) == 0:
            inner += b'""'          # a doubled (escaped) quote
        return b'"' + inner + b'"'
    if kind == "lineno":
        n = draw(st.one_of(st.integers(0, 65535), st.sampled_from([0, 1, 63, 64, 255, 256, 16383, 16384, 32767,
                                                                    32768, 49152, 65279, 65535])))
        pre = draw(st.sampled_from([b"\xE5", b"\xE4", b"\x8C", b"\x8B", b"\xF7", b""]))
        if draw(st.integers(0, 9)) == 0:
            trip = bytes(draw(st.lists(st.integers(1, 255).filter(lambda c: c not in LOOP), min_size=3, max_size=3)))
        else:
            trip = rb.encode_8d(n)
        return pre + b"\x8D" + trip
    if kind == "ext":
        if d in ("ARM", "Mac"):
            intro = draw(st.sampled_from([0xC6, 0xC7, 0xC8]))
            codes = sorted(rb.TABLES[d][1][intro])
            return bytes([intro, draw(st.sampled_from(codes))])
        if d == "PDP11":
            if draw(st.booleans()):
                return b"\xC8\x98"
            nxt = draw(st.sampled_from([b for b in _single_tokens(dialect) if b not in (0x98,) + LOOP] + [0x41, 0x20]))
            return bytes([0xC8, nxt])
        return bytes([draw(st.sampled_from([0xC6, 0xC7, 0xC8]))])
    if kind == "rem":
        txt = draw(st.lists(st.integers(0x20, 0x7E).filter(lambda c: c != 0x22), max_size=12))
        return b"\xF4" + bytes(txt)
    raise AssertionError(kind)


@st.composite
def line_body(draw, dialect):
    items = draw(st.lists(item(dialect), max_size=draw(st.sampled_from([3, 8, 30]))))
    body = bytearray()
    for it in items:
        if len(body) + len(it) > MAXBODY:
            break
        body += it
    if draw(st.integers(0, 11)) == 0:
        # unterminated string running to the end of the line
        tail = bytes(c for c in draw(st.lists(st.integers(1, 255), max_size=8)) if c != 0x22)
        if len(body) + 1 + len(tail) <= MAXBODY:
            body += b'"' + tail
    return bytes(body)


def fix_indent(dialect, lines):
    """Replace NEXT/UNTIL tokens (outside strings and 0x8D operands) that would
    drive the FOR or the REPEAT nesting count negative by ':' -- construction,
    not rejection."""
    nf = nr = 0
    out = []
    for num, body in lines:
        b = bytearray(body)
        # positions of loop tokens outside strings / operands / extension second bytes
        pos = {0xE3: [], 0xED: [], 0xF5: [], 0xFD: []}
        i = 0
        ins = False
        d = rb.CANON[dialect]
        while i < len(b):
            c = b[i]
            if ins:
                if c == 0x22:
                    ins = False
                i += 1
                continue
            if c == 0x22:
                ins = True
                i += 1
                continue
            if c == 0x8D:
                i += 4
                continue
            if c in (0xC6, 0xC7, 0xC8) and d in ("ARM", "Mac"):
                i += 2
                continue
            if c == 0xC8 and d == "PDP11":
                i += 2 if (i + 1 < len(b) and b[i + 1] == 0x98) else 1
                continue
            if c in pos:
                pos[c].append(i)
            i += 1
        # NEXT and UNTIL are subtracted at the start of the line
        while len(pos[0xED]) > nf:
            b[pos[0xED].pop()] = 0x3A
        while len(pos[0xFD]) > nr:
            b[pos[0xFD].pop()] = 0x3A
        nf += len(pos[0xE3]) - len(pos[0xED])
        nr += len(pos[0xF5]) - len(pos[0xFD])
        out.append((num, bytes(b)))
    return out


@st.composite
def program(draw, dialect=None, max_lines=40):
    if dialect is None:
        dialect = draw(st.sampled_from(rb.DIALECT_NAMES))
    be = rb.CANON[dialect] in rb.BIG_ENDIAN
    maxnum = 65279 if be else 65535
    nlines = draw(st.one_of(st.integers(0, 4), st.integers(0, max_lines)))
    lines = []
    for _ in range(nlines):
        num = draw(st.one_of(st.sampled_from([0, 1, 9, 10, 99, 100, 999, 1000, 9999, 10000, 32767, 32768, maxnum]),
                             st.integers(0, maxnum)))
        lines.append((num, draw(line_body(dialect))))
    lines = fix_indent(dialect, lines)
    return {"dialect": dialect, "lines": [[n, b] for n, b in lines]}
