"""Generic driver: builds, regression replays, generated tier in 16 workers,
shrinking, 3x confirmation, evidence, known findings."""
import argparse
import base64
import hashlib
import importlib
import json
import multiprocessing
import os
import shutil
import sys
import time
import traceback

from . import build as buildmod
from . import runtool

VERIF = buildmod.VERIF
WORKERS = int(os.environ.get("VERIF_WORKERS", "16"))
SHRINK_S = float(os.environ.get("VERIF_SHRINK_S", "40"))


# ---------------------------------------------------------------- json helpers

def jb(b):
    """bytes -> JSON-able"""
    return {"__b64__": base64.b64encode(bytes(b)).decode()}


def unjb(o):
    return base64.b64decode(o["__b64__"])


def _default(o):
    if isinstance(o, (bytes, bytearray)):
        return jb(o)
    if isinstance(o, (set, frozenset)):
        return sorted(o)
    if isinstance(o, tuple):
        return list(o)
    raise TypeError(type(o))


def _hook(d):
    if "__b64__" in d and len(d) == 1:
        return base64.b64decode(d["__b64__"])
    return d


def dumps(case):
    return json.dumps(case, default=_default, sort_keys=True)


def loads(s):
    return json.loads(s, object_hook=_hook)


def case_hash(case):
    return hashlib.sha1(dumps(case).encode()).hexdigest()


def abbreviate(o, maxbytes=48, maxlist=12, depth=0):
    """Make a case printable in evidence samples."""
    if isinstance(o, (bytes, bytearray)):
        if len(o) <= maxbytes:
            return "hex:" + bytes(o).hex()
        return "hex:%s...(%d bytes)" % (bytes(o[:maxbytes]).hex(), len(o))
    if isinstance(o, dict):
        return {str(k): abbreviate(v, maxbytes, maxlist, depth + 1) for k, v in o.items()}
    if isinstance(o, (list, tuple)):
        r = [abbreviate(v, maxbytes, maxlist, depth + 1) for v in o[:maxlist]]
        if len(o) > maxlist:
            r.append("...(%d items)" % len(o))
        return r
    if isinstance(o, str) and len(o) > 400:
        return o[:400] + "...(%d chars)" % len(o)
    return o


# ---------------------------------------------------------------- verdicts

class Failure:
    def __init__(self, key, msg, detail=None):
        self.key = key          # root-cause classifier (matched against known findings)
        self.msg = msg
        self.detail = detail

    def to_json(self):
        return {"key": self.key, "msg": self.msg, "detail": self.detail}


class Verdict:
    def __init__(self):
        self.failures = []
        self.evaluations = 0     # tool executions judged
        self.nontrivial = False
        self.classes = []        # class labels for the distribution report
        self.skipped = None      # reason the case was not judged (counted)

    def fail(self, key, msg, detail=None):
        self.failures.append(Failure(key, msg, detail))


class Ctx:
    """What a check needs: tool paths per variant, known findings."""

    def __init__(self, prop_id, builds, known):
        self.prop_id = prop_id
        self.builds = builds
        self.known = known

    def tool(self, variant, name):
        if os.environ.get("VERIF_COVERAGE") and variant != "fuzz":
            # measurement mode (tools/coverage.sh): every variant is the gcov build
            return buildmod.tool(buildmod.build("cov"), name)
        return buildmod.tool(self.builds[variant], name)

    def known_keys(self):
        return {k["key"] for k in self.known if k.get("status") == "known"}


def load_known(prop_id):
    p = os.path.join(VERIF, "known_findings.json")
    if not os.path.exists(p):
        return []
    with open(p) as fh:
        data = json.load(fh)
    return [e for e in data.get("findings", []) if e.get("property") == prop_id]


# ---------------------------------------------------------------- worker

class Stats:
    def __init__(self):
        self.cases = 0
        self.evaluations = 0
        self.nontrivial = set()
        self.classes = {}
        self.skipped = {}
        self.samples = []
        self.known_hits = {}
        self.hyp_error = None

    def add(self, case, v, check):
        self.cases += 1
        self.evaluations += v.evaluations
        if v.skipped:
            self.skipped[v.skipped] = self.skipped.get(v.skipped, 0) + 1
        for c in v.classes:
            self.classes[c] = self.classes.get(c, 0) + 1
        if v.nontrivial:
            h = case_hash(case)
            if h not in self.nontrivial:
                self.nontrivial.add(h)
                if len(self.samples) < 3:
                    self.samples.append(abbreviate(check.sample(case)))

    def to_dict(self):
        return {"cases": self.cases, "evaluations": self.evaluations,
                "nontrivial": sorted(self.nontrivial), "classes": self.classes,
                "skipped": self.skipped, "samples": self.samples,
                "known_hits": self.known_hits, "hyp_error": self.hyp_error}


class _BudgetExhausted(KeyboardInterrupt):
    pass


def _worker(args):
    (modname, builds, known, w, seed, tier, deadline, nworkers) = args
    try:
        return _worker_inner(modname, builds, known, w, seed, tier, deadline, nworkers)
    except Exception:
        return {"crash": traceback.format_exc(), "worker": w}


def _worker_inner(modname, builds, known, w, seed, tier, deadline, nworkers):
    from hypothesis import given, settings, seed as hseed, HealthCheck, Phase
    import hypothesis.errors
    mod = importlib.import_module(modname)
    check = mod.CHECK
    ctx = Ctx(check.pid, builds, known)
    known_keys = ctx.known_keys()
    stats = Stats()
    failing = {}

    def judge_and_record(case):
        v = check.judge(ctx, case)
        stats.add(case, v, check)
        bad = [f for f in v.failures if f.key not in known_keys]
        for f in v.failures:
            if f.key in known_keys:
                stats.known_hits[f.key] = stats.known_hits.get(f.key, 0) + 1
        return bad

    # ---- enumerated part (exhaustive sub-spaces), split round-robin
    enum_total = 0
    for i, case in enumerate(check.enumerated(tier)):
        enum_total += 1
        if i % nworkers != w:
            continue
        bad = judge_and_record(case)
        if bad:
            failing["case"] = case
            failing["failures"] = [f.to_json() for f in bad]
            failing["shrunk"] = False
            break

    # ---- generated part
    nmax = check.examples(tier)
    # Hypothesis starts every run with its simplest examples, so a worker needs a few hundred examples before
    # it reaches the rarer combinations; each worker therefore gets a quarter of the total (not 1/16) and the
    # wall-clock budget of the tier (never a verdict) decides how many are actually judged.
    per_worker = max(1, nmax // 4)
    if not failing and per_worker > 0 and check.strategy(tier) is not None:
        state = {"stop": False}

        @settings(max_examples=per_worker, database=None, deadline=None, derandomize=False,
                  report_multiple_bugs=False,
                  suppress_health_check=[HealthCheck.too_slow, HealthCheck.data_too_large,
                                         HealthCheck.large_base_example],
                  phases=[Phase.generate, Phase.shrink])
        @hseed(seed * 1000 + w)
        @given(check.strategy(tier))
        def prop(case):
            if not failing and time.time() > deadline:
                # budget exhausted: stop the run (never a violation).  A KeyboardInterrupt subclass is the one
                # exception Hypothesis lets through without treating it as a failing example; merely returning
                # would make it go on *generating* the remaining examples, which for 10^4 disc images takes longer
                # than the budget itself.
                state["stop"] = True
                raise _BudgetExhausted()
            if failing and time.time() > failing["t0"] + SHRINK_S:
                # shrink budget exhausted: let the shrinker run dry; the smallest
                # failing case seen so far is kept in `failing`
                return
            bad = judge_and_record(case)
            if bad:
                failing.setdefault("t0", time.time())
                failing["case"] = case
                failing["failures"] = [f.to_json() for f in bad]
                failing["shrunk"] = True
                raise AssertionError(bad[0].msg)

        # watchdog: should one example (generation or judging) ever take minutes, the worker is stopped a few minutes
        # after the budget instead of holding up the whole check; what it had judged until then still counts
        import signal

        def _alarm(signum, frame):
            state["watchdog"] = True
            raise _BudgetExhausted()
        signal.signal(signal.SIGALRM, _alarm)
        signal.alarm(int(max(1, deadline - time.time()) + SHRINK_S + 240))
        try:
            prop()
        except _BudgetExhausted:
            pass
        except AssertionError:
            pass
        except hypothesis.errors.HypothesisException as e:
            if not failing:
                stats.hyp_error = "%s: %s" % (type(e).__name__, e)
        except Exception as e:     # harness bug: report as broken, not as violation
            if not failing:
                stats.hyp_error = "harness exception: " + traceback.format_exc()
    try:
        signal.alarm(0)
    except NameError:
        pass
    d = stats.to_dict()
    d["worker"] = w
    d["enum_total"] = enum_total
    if per_worker > 0 and check.strategy(tier) is not None and not failing and state.get("watchdog"):
        d["note"] = "worker %d was stopped by the watchdog (one example ran for minutes)" % w
    if failing:
        failing.pop("t0", None)
        d["failing"] = dumps(failing)
    return d


# ---------------------------------------------------------------- driver

class CheckBase:
    pid = "C00"
    level = "exploration"
    variants = ("dbg",)
    rule = ""
    assumptions = ()
    exhaustive_note = None
    min_nontrivial = {"quick": 50, "thorough": 200}
    budget_s = {"quick": 60, "thorough": 900}

    def strategy(self, tier):
        return None

    def enumerated(self, tier):
        return ()

    def examples(self, tier):
        return 0

    def judge(self, ctx, case):
        raise NotImplementedError

    def sample(self, case):
        return case

    def extra_evidence(self, ctx, tier):
        return {}


def replay_dir(pid):
    return os.path.join(VERIF, "replays", pid)


def save_failure(pid, failing):
    case = failing["case"]
    h = case_hash(case)[:12]
    d = os.path.join(replay_dir(pid), "found-" + h)
    os.makedirs(d, exist_ok=True)
    with open(os.path.join(d, "case.json"), "w") as fh:
        fh.write(dumps({"case": case, "failures": failing.get("failures"),
                        "shrunk": failing.get("shrunk")}))
    return d


def load_case(path):
    if os.path.isdir(path):
        path = os.path.join(path, "case.json")
    with open(path) as fh:
        d = loads(fh.read())
    return d["case"] if "case" in d else d


def judge_n(check, ctx, case, n=3):
    """Re-judge a case n times without the library; failures must repeat."""
    known_keys = ctx.known_keys()
    allbad = None
    for _ in range(n):
        v = check.judge(ctx, case)
        bad = [f for f in v.failures if f.key not in known_keys]
        if not bad:
            return []
        allbad = bad
    return allbad


def main(argv=None):
    ap = argparse.ArgumentParser()
    ap.add_argument("prop")
    ap.add_argument("--tier", default=os.environ.get("VERIF_TIER", "quick"))
    ap.add_argument("--replay")
    ap.add_argument("--no-evidence", action="store_true")
    a = ap.parse_args(argv)
    pid = a.prop.upper()
    tier = a.tier if a.tier in ("quick", "thorough") else "quick"
    seed = int(os.environ.get("VERIF_SEED", "1") or "1")
    t0 = time.time()
    modname = "checks.%s" % pid.lower()
    mod = importlib.import_module(modname)
    check = mod.CHECK

    thash = buildmod.tree_hash()
    builds = {}
    for v in check.variants:
        builds[v] = buildmod.build(v, thash)
    if hasattr(check, "prepare"):
        check.prepare(builds)
    known = load_known(pid)
    ctx = Ctx(pid, builds, known)

    if a.replay:
        case = load_case(a.replay)
        bad = judge_n(check, ctx, case, 1)
        if bad:
            for f in bad:
                print("FAIL key=%s %s" % (f.key, f.msg))
                if f.detail:
                    print(json.dumps(abbreviate(f.detail), indent=1, default=str)[:4000])
            print("VIOLATION property=%s replay=%s" % (pid, a.replay))
            return 1
        print("replay passes: %s" % a.replay)
        return 0

    violations = []
    known_lines = []
    regress_count = 0
    # ---- regression tier: saved replays (fixed defects, boundary cases) and
    # probes of known findings
    rdir = replay_dir(pid)
    if os.path.isdir(rdir) and not os.environ.get("VERIF_SKIP_REGRESSION"):   # (development aid: generated tier only)
        for name in sorted(os.listdir(rdir)):
            p = os.path.join(rdir, name)
            if not os.path.exists(os.path.join(p, "case.json")):
                continue
            case = load_case(p)
            regress_count += 1
            v = check.judge(ctx, case)
            bad = [f for f in v.failures if f.key not in ctx.known_keys()]
            kn = [f for f in v.failures if f.key in ctx.known_keys()]
            for f in kn:
                line = "KNOWN-FINDING: property=%s %s [%s] (probe %s)" % (pid, _what(known, f.key), f.key, name)
                if line not in known_lines:
                    known_lines.append(line)
            if bad and judge_n(check, ctx, case, 3):
                violations.append((os.path.relpath(p, VERIF), bad))

    # ---- generated tier
    budget = float(os.environ.get("VERIF_BUDGET_S", check.budget_s[tier]))
    deadline = time.time() + budget
    nworkers = WORKERS
    merged = {"cases": 0, "evaluations": 0, "nontrivial": set(), "classes": {}, "skipped": {},
              "samples": [], "known_hits": {}, "hyp_errors": [], "notes": [], "enum_total": 0}
    failing_cases = []
    if not violations:
        args = [(modname, builds, known, w, seed, tier, deadline, nworkers) for w in range(nworkers)]
        with multiprocessing.get_context("fork").Pool(nworkers) as pool:
            results = pool.map(_worker, args, chunksize=1)
        for r in results:
            if "crash" in r:
                merged["hyp_errors"].append("worker %s crashed: %s" % (r["worker"], r["crash"]))
                continue
            merged["cases"] += r["cases"]
            merged["evaluations"] += r["evaluations"]
            merged["nontrivial"].update(r["nontrivial"])
            for k, n in r["classes"].items():
                merged["classes"][k] = merged["classes"].get(k, 0) + n
            for k, n in r["skipped"].items():
                merged["skipped"][k] = merged["skipped"].get(k, 0) + n
            for k, n in r["known_hits"].items():
                merged["known_hits"][k] = merged["known_hits"].get(k, 0) + n
            if len(merged["samples"]) < 6:
                merged["samples"].extend(r["samples"][:2])
            merged["enum_total"] = max(merged["enum_total"], r.get("enum_total", 0))
            if r.get("hyp_error"):
                merged["hyp_errors"].append("worker %d: %s" % (r["worker"], r["hyp_error"]))
            if r.get("note"):
                merged["notes"].append(r["note"])
            if "failing" in r:
                failing_cases.append(loads(r["failing"]))
        # confirm failures 3x outside the library; report distinct root causes
        seen_keys = set()
        for fc in failing_cases:
            keys = tuple(sorted(f["key"] for f in fc["failures"]))
            if keys in seen_keys:
                continue
            bad = judge_n(check, ctx, fc["case"], 3)
            if bad:
                seen_keys.add(keys)
                d = save_failure(pid, fc)
                violations.append((os.path.relpath(d, VERIF), bad))
            else:
                merged["notes"].append("unrepeatable failure discarded (not a violation): %s" % (keys,))

    # ---- optional extra engine phase (libFuzzer campaigns)
    extra_cov = {}
    if not violations and hasattr(check, "extra_phase") and not os.environ.get("VERIF_COVERAGE"):
        try:
            ex = check.extra_phase(ctx, tier, seed)
        except Exception:
            ex = {"error": traceback.format_exc()}
        if ex.get("error"):
            merged["hyp_errors"].append("extra phase: " + ex["error"])
        merged["evaluations"] += ex.get("evaluations", 0)
        extra_nt = ex.get("nontrivial", 0)
        extra_cov = ex.get("coverage", {})
        if len(merged["samples"]) < 8:
            merged["samples"].extend(ex.get("samples", [])[:2])
        for fc in ex.get("failing", []):
            bad = judge_n(check, ctx, fc["case"], 3)
            if bad:
                d = save_failure(pid, fc)
                violations.append((os.path.relpath(d, VERIF), bad))
            else:
                merged["notes"].append("unrepeatable fuzz artifact discarded (not a violation)")
    else:
        extra_nt = 0

    for k, n in merged["known_hits"].items():
        tag = "[%s]" % k
        hit = [i for i, ln in enumerate(known_lines) if tag in ln]
        if hit:          # one line per listed finding: the probe's line also carries the generated-case count
            known_lines[hit[0]] += " (+ %d generated cases)" % n
        else:
            known_lines.append("KNOWN-FINDING: property=%s %s [%s] (%d generated cases)" % (pid, _what(known, k), k, n))
    for line in known_lines:
        print(line)

    wall = time.time() - t0
    nontrivial = len(merged["nontrivial"]) + extra_nt
    cov = {
        "evaluations": merged["evaluations"],
        "distinct_nontrivial": nontrivial,
        "rule": check.rule,
        "samples": merged["samples"][:6],
        "cases_generated": merged["cases"],
        "regression_replays_run": regress_count,
        "class_counts": dict(sorted(merged["classes"].items())),
        "skipped_counts": merged["skipped"],
        "known_finding_hits": merged["known_hits"],
        "enumerated_cases": merged["enum_total"],
        "workers": nworkers,
        "tree_hash": thash,
    }
    if check.exhaustive_note:
        cov["exhaustive_subspaces"] = check.exhaustive_note
    cov.update(extra_cov)
    try:
        cov.update(check.extra_evidence(ctx, tier) or {})
    except Exception:
        cov["extra_evidence_error"] = traceback.format_exc()
    if merged["hyp_errors"]:
        cov["harness_errors"] = merged["hyp_errors"][:10]
    if merged["notes"]:
        cov["notes"] = merged["notes"][:10]
    if violations:
        cov["violation_details"] = [
            {"replay": p, "failures": [abbreviate(f.to_json()) for f in bad][:5]} for p, bad in violations]
    ev = {"property_id": pid, "tier": tier, "seed": seed, "level": check.level, "coverage": cov,
          "assumptions": list(check.assumptions), "wall_s": round(wall, 2), "violations": len(violations)}
    if not a.no_evidence:
        os.makedirs(os.path.join(VERIF, "evidence"), exist_ok=True)
        try:
            import jsonschema
            with open("/root/.vp/EVIDENCE.schema.json") as fh:
                schema = json.load(fh)
            if cov["samples"] and nontrivial >= 2 and cov["evaluations"] >= 1:
                jsonschema.validate(ev, schema)
        except ImportError:
            pass
        except OSError:
            pass
        with open(os.path.join(VERIF, "evidence", pid + ".json"), "w") as fh:
            json.dump(ev, fh, indent=1, default=_default)

    print("%s tier=%s seed=%d cases=%d evaluations=%d nontrivial=%d wall=%.1fs"
          % (pid, tier, seed, merged["cases"], merged["evaluations"], nontrivial, wall))
    if violations:
        for p, bad in violations:
            for f in bad[:3]:
                print("  failure key=%s: %s" % (f.key, f.msg))
            print("VIOLATION property=%s replay=%s" % (pid, p))
        return 1
    for e in merged["notes"][:5]:
        print("NOTE: %s" % e)
    if merged["hyp_errors"]:
        for e in merged["hyp_errors"][:5]:
            print("HARNESS-ERROR: %s" % e)
        return 2
    if nontrivial < check.min_nontrivial[tier]:
        print("INCONCLUSIVE: only %d non-trivial cases (minimum %d)" % (nontrivial, check.min_nontrivial[tier]))
        return 2
    return 0


def _what(known, key):
    for k in known:
        if k["key"] == key:
            return k.get("what", key)
    return key
