"""Tolerant parsers for dfs output (layout may vary in whitespace only)."""
import re

HEX = re.compile(rb"^[0-9A-F]+$")


def parse_info(stdout):
    """-> list of dicts(dir, name, locked, load, exec, length, start) or raises ValueError."""
    out = []
    for line in stdout.split(b"\n"):
        if not line.strip():
            continue
        toks = line.split()
        if len(toks) < 5:
            raise ValueError("short info line %r" % line)
        nums = toks[-4:]
        if not all(HEX.match(t) for t in nums):
            raise ValueError("non-hex fields in %r" % line)
        head = toks[:-4]
        if len(head) == 1:
            locked = False
        elif len(head) == 2 and head[1] == b"L":
            locked = True
        else:
            raise ValueError("cannot parse name part of %r" % line)
        nm = head[0]
        if len(nm) < 3 or nm[1:2] != b".":
            raise ValueError("bad name %r" % nm)
        out.append({"dir": nm[0], "name": nm[2:], "locked": locked,
                    "load": int(nums[0], 16), "exec": int(nums[1], 16),
                    "length": int(nums[2], 16), "start": int(nums[3], 16),
                    "widths": [len(n) for n in nums]})
    return out


def parse_cat(stdout):
    """-> dict(header_lines, cells=[(dir or None, name, locked)], trailer_lines)"""
    lines = stdout.split(b"\n")
    if lines and lines[-1] == b"":
        lines.pop()
    # header = everything up to and including the first blank line
    try:
        blank = lines.index(b"")
    except ValueError:
        raise ValueError("no blank line after cat header")
    header = lines[:blank]
    body = lines[blank + 1:]
    cells = []
    trailer = []
    for ln in body:
        if not ln.strip():
            continue
        if re.match(rb"^\d+ files of \d+ on \d+ tracks$", ln) or ln == b"No file":
            trailer.append(ln)
            continue
        for c in range(0, len(ln), 20):
            cell = ln[c:c + 20]
            if not cell.strip():
                continue
            toks = [t for t in cell.split(b" ") if t]     # (names may hold control characters, never blanks)
            locked = False
            if len(toks) == 2 and toks[1] == b"L":
                locked = True
            elif len(toks) != 1:
                raise ValueError("cannot parse cat cell %r in line %r" % (cell, ln))
            nm = toks[0]
            if len(nm) >= 3 and nm[1:2] == b".":
                cells.append((nm[0], nm[2:], locked))
            else:
                cells.append((None, nm, locked))
    return {"header": header, "cells": cells, "trailer": trailer}
