"""Reference detokeniser transcribed from doc/bbcbasic.5 and doc/bbcbasic_to_text.1.

Independent of basic/tokens.c; cross-checked once against
basic/testdata/golden-token-map.txt (a transcription slip is a broken check,
not a violation)."""
import os
import re

DIALECT_NAMES = ["6502", "32000", "PDP11", "Z80", "8086", "ARM", "Windows", "SDL", "MacOSX", "Mac"]
CANON = {"6502": "6502", "32000": "6502", "PDP11": "PDP11", "Z80": "Z80", "8086": "Z80", "ARM": "ARM",
         "Windows": "Windows", "SDL": "Windows", "MacOSX": "Windows", "Mac": "Mac"}
BIG_ENDIAN = {"6502", "PDP11", "ARM", "Mac"}

_COMMON = """
80 AND|81 DIV|82 EOR|83 MOD|84 OR|85 ERROR|86 LINE|87 OFF|88 STEP|89 SPC|8A TAB(|8B ELSE|8C THEN|
8E OPENIN|8F PTR|90 PAGE|91 TIME|92 LOMEM|93 HIMEM|94 ABS|95 ACS|96 ADVAL|97 ASC|98 ASN|99 ATN|9A BGET|
9B COS|9C COUNT|9D DEG|9E ERL|9F ERR|A0 EVAL|A1 EXP|A2 EXT|A3 FALSE|A4 FN|A5 GET|A6 INKEY|A7 INSTR(|
A8 INT|A9 LEN|AA LN|AB LOG|AC NOT|AD OPENUP|AE OPENOUT|AF PI|B0 POINT(|B1 POS|B2 RAD|B3 RND|B4 SGN|
B5 SIN|B6 SQR|B7 TAN|B8 TO|B9 TRUE|BA USR|BB VAL|BC VPOS|BD CHR$|BE GET$|BF INKEY$|C0 LEFT$(|C1 MID$(|
C2 RIGHT$(|C3 STR$|C4 STRING$(|C5 EOF|CF PTR|D0 PAGE|D1 TIME|D2 LOMEM|D3 HIMEM|D4 SOUND|D5 BPUT|
D6 CALL|D7 CHAIN|D8 CLEAR|D9 CLOSE|DA CLG|DB CLS|DC DATA|DD DEF|DE DIM|DF DRAW|E0 END|E1 ENDPROC|
E2 ENVELOPE|E3 FOR|E4 GOSUB|E5 GOTO|E6 GCOL|E7 IF|E8 INPUT|E9 LET|EA LOCAL|EB MODE|EC MOVE|ED NEXT|
EE ON|EF VDU|F0 PLOT|F1 PRINT|F2 PROC|F3 READ|F4 REM|F5 REPEAT|F6 REPORT|F7 RESTORE|F8 RETURN|F9 RUN|
FA STOP|FB COLOUR|FC TRACE|FD UNTIL|FE WIDTH|FF OSCLI
"""
_C9CE = {
    "6502": ["LIST", "NEW", "OLD", "RENUMBER", "SAVE", "EDIT"],
    "Z80": ["LIST", "NEW", "OLD", "RENUMBER", "SAVE", "PUT"],
    "ARM": ["WHEN", "OF", "ENDCASE", "ELSE", "ENDIF", "ENDWHILE"],
    "Windows": ["WHEN", "OF", "ENDCASE", "OTHERWISE", "ENDIF", "ENDWHILE"],
}
_WIN_LOW = {1: "CIRCLE", 2: "ELLIPSE", 3: "FILL", 4: "MOUSE", 5: "ORIGIN", 6: "QUIT", 7: "RECTANGLE",
            8: "SWAP", 9: "SYS", 0x0A: "TINT", 0x0B: "WAIT", 0x0C: "INSTALL", 0x0E: "PRIVATE", 0x0F: "BY",
            0x10: "EXIT"}
_C6 = {"ARM": {0x8E: "SUM", 0x8F: "BEAT"},
       "Mac": {0x8E: "SUM", 0x8F: "BEAT", 0x90: "ASK", 0x91: "ANSWER", 0x92: "SFOPENIN", 0x93: "SFOPENOUT",
               0x94: "SFOPENUP", 0x95: "SFNAME$", 0x96: "MENU"}}
_C7_ARM = ["APPEND", "AUTO", "CRUNCH", "DELETE", "EDIT", "HELP", "LIST", "LOAD", "LVAR", "NEW", "OLD",
           "RENUMBER", "SAVE", "TEXTLOAD", "TEXTSAVE", "TWIN", "TWINO", "INSTALL"]
_C7_MAC = ["APPEND", "AUTO", "DELETE", "EDIT", "HELP", "LIST", "LOAD", "LVAR", "NEW", "OLD", "RENUMBER",
           "SAVE", "TWIN", "TWINO"]
_C8_COMMON = ["CASE", "CIRCLE", "FILL", "ORIGIN", "POINT", "RECTANGLE", "SWAP", "WHILE", "WAIT", "MOUSE", "QUIT"]
_C8_ARM_MORE = ["SYS", "INSTALL", "LIBRARY", "TINT", "ELLIPSE", "BEATS", "TEMPO", "VOICES", "VOICE", "STEREO",
                "OVERLAY", "MANDEL", "PRIVATE", "EXIT"]


def _build():
    common = {}
    for item in _COMMON.replace("\n", "").split("|"):
        item = item.strip()
        if not item:
            continue
        code, kw = item.split(" ", 1)
        common[int(code, 16)] = kw
    tables = {}
    for d in ("6502", "PDP11", "Z80", "ARM", "Windows", "Mac"):
        base = {}
        # 0x11..0x7E represent themselves (0x18-0x1F are fast variables on Windows)
        for b in range(0x11, 0x7F):
            base[b] = bytes([b])
        base[0x0D] = b"\r"
        base.update({k: v.encode() for k, v in common.items()})
        fam = {"6502": "6502", "PDP11": "6502", "Z80": "Z80", "ARM": "ARM", "Mac": "ARM", "Windows": "Windows"}[d]
        for i, kw in enumerate(_C9CE[fam]):
            base[0xC9 + i] = kw.encode()
        ext = {0xC6: {}, 0xC7: {}, 0xC8: {}}
        if d in ("6502", "PDP11", "Z80"):
            base[0xC6], base[0xC7], base[0xC8] = b"AUTO", b"DELETE", b"LOAD"
        if d == "Windows":
            base[0xC6], base[0xC7], base[0xC8] = b"SUM", b"WHILE", b"CASE"
            for k, kw in _WIN_LOW.items():
                base[k] = kw.encode()
            for b in range(0x18, 0x20):
                del base[b]            # fast variables: a crunched program is rejected
        if d in ("ARM", "Mac"):
            base[0x7F] = b"OTHERWISE"
            for k in (0xC6, 0xC7, 0xC8):
                base.pop(k, None)
            ext[0xC6] = {k: v.encode() for k, v in _C6[d].items()}
            c7 = _C7_ARM if d == "ARM" else _C7_MAC
            ext[0xC7] = {0x8E + i: kw.encode() for i, kw in enumerate(c7)}
            c8 = _C8_COMMON + (_C8_ARM_MORE if d == "ARM" else [])
            ext[0xC8] = {0x8E + i: kw.encode() for i, kw in enumerate(c8)}
        tables[d] = (base, ext)
    return tables


TABLES = _build()


def valid_single_bytes(dialect, doc_strict=True):
    """Bytes that are valid alone outside a string for the dialect (doc/bbcbasic.5).
    0x7F is left out for non-ARM/Mac (doc says invalid, golden map says identity),
    0x0D and 0x22 and 0x8D are handled separately."""
    d = CANON[dialect]
    base, ext = TABLES[d]
    out = []
    for b in sorted(base):
        if b in (0x0D, 0x22, 0x8D):
            continue
        if b == 0x7F and d not in ("ARM", "Mac"):
            continue
        if b in (0xC6, 0xC7, 0xC8) and d in ("ARM", "Mac", "PDP11"):
            continue
        out.append(b)
    return out


def decode_8d(b1, b2, b3):
    return ((((b3 ^ (b1 << 4)) & 0xFF) << 8) | ((b2 ^ ((b1 << 2) & 0xC0)) & 0xFF)) & 0xFFFF


def encode_8d(n):
    lo, hi = n & 0xFF, (n >> 8) & 0xFF
    b1 = (((lo & 0xC0) >> 2) | ((hi & 0xC0) >> 4)) ^ 0x54
    return bytes([b1, (lo & 0x3F) | 0x40, (hi & 0x3F) | 0x40])


class Reject(Exception):
    pass


class Ambiguous(Exception):
    """The documents do not say (or contradict the pinned behaviour) whether this input is well formed."""


def detokenise_line(dialect, data):
    """Return (text_bytes, n_for, n_next, n_repeat, n_until) for a line body."""
    d = CANON[dialect]
    base, ext = TABLES[d]
    out = bytearray()
    i = 0
    in_string = False
    cnt = {0xE3: 0, 0xED: 0, 0xF5: 0, 0xFD: 0}
    n = len(data)
    while i < n:
        b = data[i]
        i += 1
        if b == 0:
            raise Reject("NUL byte in line")
        if in_string:
            out.append(b)
            if b == 0x22:
                in_string = False
            continue
        if b == 0x22:
            out.append(b)
            in_string = True
            continue
        if b == 0x8D:
            if n - i < 3:
                raise Reject("line number cut off by end of line")
            out += b"%d" % decode_8d(data[i], data[i + 1], data[i + 2])
            i += 3
            continue
        if b in cnt:
            cnt[b] += 1
        if d == "PDP11" and b == 0xC8:
            if i >= n:
                raise Reject("end of line after 0xC8")
            if data[i] == 0x98:
                out += b"QUIT"
                i += 1
            else:
                out += b"LOAD"
            continue
        if b in (0xC6, 0xC7, 0xC8) and d in ("ARM", "Mac"):
            if i >= n:
                raise Reject("end of line after extension byte")
            kw = ext[b].get(data[i])
            if kw is None:
                raise Reject("unassigned extension code %02X %02X" % (b, data[i]))
            out += kw
            i += 1
            continue
        kw = base.get(b)
        if kw is None:
            if b == 0x7F:
                # doc/bbcbasic.5 calls 0x7F invalid outside ARM/Mac, the pinned golden token map passes it through
                raise Ambiguous("0x7F outside a string in a dialect other than ARM/Mac")
            raise Reject("unassigned token %02X" % b)
        out += kw
    return bytes(out), cnt[0xE3], cnt[0xED], cnt[0xF5], cnt[0xFD]


def listing(dialect, listo, lines):
    """lines: list of (line_number, body bytes).  Returns expected stdout, or raises
    Reject / returns with indent_negative flag."""
    out = bytearray()
    indent = 0
    went_negative = False
    for num, body in lines:
        text, nfor, nnext, nrep, nuntil = detokenise_line(dialect, body)
        if listo & 2:
            indent -= 2 * nnext
        if listo & 4:
            indent -= 2 * nuntil
        if indent < 0:
            went_negative = True
        out += (b"%5d" % num) if num else b"     "
        if listo & 1:
            out += b" "
        out += b" " * max(indent, 0)
        out += text + b"\n"
        if listo & 2:
            indent += 2 * nfor
        if listo & 4:
            indent += 2 * nrep
    return bytes(out), went_negative


def serialise(dialect, lines, eof=True):
    """Tokenised file for `lines` in the dialect's framing."""
    d = CANON[dialect]
    out = bytearray()
    if d in BIG_ENDIAN:
        for num, body in lines:
            assert len(body) + 4 <= 255
            out += bytes([0x0D, (num >> 8) & 0xFF, num & 0xFF, len(body) + 4]) + body
        if eof:
            out += b"\x0D\xFF"
    else:
        for num, body in lines:
            assert len(body) + 4 <= 255
            out += bytes([len(body) + 4, num & 0xFF, (num >> 8) & 0xFF]) + body + b"\x0D"
        if eof:
            out += b"\x00\xFF\xFF"
    return bytes(out)


def crosscheck_golden(path):
    """Compare the transcribed tables with basic/testdata/golden-token-map.txt.
    Returns a list of disagreement strings (expected: only the documented ones)."""
    if not os.path.exists(path):
        return ["golden token map not found"]
    gold = {}
    rx = re.compile(r"^(\S+) \((\w+) map\): 0x([0-9A-F]{2})->(.*)$")
    for line in open(path, encoding="latin-1"):
        m = rx.match(line.rstrip("\n"))
        if m:
            gold[(m.group(1), m.group(2), int(m.group(3), 16))] = m.group(4)
    bad = []
    for d in ("6502", "PDP11", "Z80", "ARM", "Windows", "Mac"):
        base, ext = TABLES[d]
        for b in range(256):
            g = gold.get((d, "base", b))
            if g is None:
                bad.append("no golden entry %s base %02X" % (d, b))
                continue
            mine = base.get(b)
            if g == "(maps to itself)":
                gv = bytes([b])
            elif g.startswith("__"):
                gv = None
            else:
                gv = g.encode("latin-1")
            if b == 0x8D:
                continue
            if b in (0xC6, 0xC7, 0xC8) and d in ("ARM", "Mac", "PDP11"):
                continue
            if b == 0x7F and d not in ("ARM", "Mac"):
                continue     # documented disagreement: doc says invalid, code passes it through
            if mine != gv:
                bad.append("%s base %02X: doc table %r, golden %r" % (d, b, mine, g))
        if d in ("ARM", "Mac"):
            for intro, nm in ((0xC6, "c6"), (0xC7, "c7"), (0xC8, "c8")):
                for b in range(256):
                    g = gold.get((d, nm, b))
                    gv = None if (g is None or g.startswith("__")) else g.encode("latin-1")
                    if ext[intro].get(b) != gv:
                        bad.append("%s %s %02X: doc %r golden %r" % (d, nm, b, ext[intro].get(b), g))
    return bad



def parse_program(dialect, data):
    """Reference framing parser (doc/bbcbasic.5 FILE FORMAT / END OF FILE).

    Returns the list of (line number, body) of a well-formed file; raises Reject
    (with .lines = the complete lines before the fault) when the framing or a
    token is definitely ill-formed, Ambiguous where the documents are silent."""
    d = CANON[dialect]
    lines = []
    i = 0
    n = len(data)

    def reject(msg):
        e = Reject(msg)
        e.lines = list(lines)
        return e
    if n == 0:
        return lines
    if d in BIG_ENDIAN:
        while True:
            if i >= n:
                raise reject("end of file before the end-of-program marker")
            if data[i] != 0x0D:
                raise reject("line does not start with 0x0D")
            i += 1
            if i >= n:
                raise reject("end of file after 0x0D")
            hi = data[i]
            i += 1
            if hi == 0xFF:
                if i == n:
                    return lines
                raise Ambiguous("bytes after the 0x0D 0xFF marker")
            if i + 2 > n:
                raise reject("end of file in line header")
            lo, ln = data[i], data[i + 1]
            i += 2
            if ln < 4:
                raise reject("impossible line length")
            body = data[i:i + ln - 4]
            if len(body) < ln - 4:
                raise reject("end of file inside a line")
            i += ln - 4
            try:
                detokenise_line(dialect, body)
            except Reject as ex:
                raise reject(str(ex))
            lines.append((hi * 256 + lo, bytes(body)))
    else:
        while True:
            if i >= n:
                raise reject("end of file before the end-of-program marker")
            ln = data[i]
            i += 1
            if ln == 0:
                if data[i:i + 2] != b"\xFF\xFF":
                    raise reject("incomplete end-of-program marker")
                if i + 2 == n:
                    return lines
                raise Ambiguous("bytes after the end-of-program marker")
            if ln < 3:
                raise reject("impossible line length")
            if ln == 3:
                raise Ambiguous("line of length 3 (no terminator at all)")
            if i + 2 > n:
                raise reject("end of file in line header")
            lo, hi = data[i], data[i + 1]
            i += 2
            rest = data[i:i + ln - 3]
            if len(rest) < ln - 3:
                raise reject("end of file inside a line")
            i += ln - 3
            if rest[-1] != 0x0D:
                raise reject("line does not end with 0x0D")
            body = rest[:-1]
            try:
                detokenise_line(dialect, body)
            except Reject as ex:
                raise reject(str(ex))
            lines.append((hi * 256 + lo, bytes(body)))
