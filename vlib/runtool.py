"""Run the tools under test with uniform, safe conditions."""
import os
import resource
import shutil
import signal
import subprocess
import tempfile
import time

VERIF = os.path.dirname(os.path.dirname(os.path.abspath(__file__)))
WORK_ROOT = os.environ.get("VERIF_WORK") or os.path.join(VERIF, "work")

TIMEOUT = 10.0

BASE_ENV = {
    "PATH": "/usr/bin:/bin",
    "LC_ALL": "C",
    "ASAN_OPTIONS": "abort_on_error=1:detect_leaks=0:allocator_may_return_null=0:handle_abort=0:symbolize=1",
    "UBSAN_OPTIONS": "print_stacktrace=1:halt_on_error=1",
    "MSAN_OPTIONS": "abort_on_error=1:exit_code=86",
    "ASAN_SYMBOLIZER_PATH": "/usr/bin/llvm-symbolizer-14",
}


class Result:
    __slots__ = ("argv", "status", "signal", "stdout", "stderr", "timed_out", "wall", "maxrss_kb")

    def __init__(self, argv, status, sig, out, err, timed_out, wall, maxrss):
        self.argv = argv
        self.status = status      # exit status or None if signalled
        self.signal = sig         # signal number or None
        self.stdout = out
        self.stderr = err
        self.timed_out = timed_out
        self.wall = wall
        self.maxrss_kb = maxrss

    @property
    def ok(self):
        return self.status == 0 and self.signal is None and not self.timed_out

    def brief(self):
        return {
            "argv": [a if len(a) < 200 else a[:200] + "..." for a in self.argv],
            "status": self.status, "signal": self.signal, "timed_out": self.timed_out,
            "stdout_head": self.stdout[:300].decode("latin-1"),
            "stdout_len": len(self.stdout),
            "stderr_head": self.stderr[:600].decode("latin-1"),
        }

    def sanitizer_report(self):
        e = self.stderr
        return (b"ERROR: AddressSanitizer" in e or b"runtime error:" in e
                or b"ERROR: UndefinedBehaviorSanitizer" in e or b"MemorySanitizer" in e
                or b"ERROR: LeakSanitizer" in e)

    def assertion_failed(self):
        return self.signal == signal.SIGABRT and b"Assertion" in self.stderr


def _preexec(fsize_limit, as_limit):
    def fn():
        resource.setrlimit(resource.RLIMIT_CORE, (0, 0))
        if fsize_limit is not None:
            signal.signal(signal.SIGXFSZ, signal.SIG_IGN)
            resource.setrlimit(resource.RLIMIT_FSIZE, (fsize_limit, fsize_limit))
        if as_limit is not None:
            resource.setrlimit(resource.RLIMIT_AS, (as_limit, as_limit))
        os.setsid()
    return fn


def run(argv, cwd, stdin=None, env_extra=None, timeout=TIMEOUT, stdout_path=None,
        fsize_limit=None, as_limit=None, env_remove=(), executable=None):
    """Run argv; returns Result.  stdin: None -> /dev/null, bytes -> piped."""
    env = dict(BASE_ENV)
    if env_extra:
        env.update(env_extra)
    for k in env_remove:
        env.pop(k, None)
    t0 = time.time()
    out_fh = None
    if stdout_path is not None:
        out_fh = open(stdout_path, "wb")
    ru0 = resource.getrusage(resource.RUSAGE_CHILDREN).ru_maxrss
    p = subprocess.Popen(argv, cwd=cwd, env=env, executable=executable,
                         stdin=subprocess.PIPE if stdin is not None else subprocess.DEVNULL,
                         stdout=out_fh if out_fh else subprocess.PIPE, stderr=subprocess.PIPE,
                         preexec_fn=_preexec(fsize_limit, as_limit))
    timed_out = False
    try:
        out, err = p.communicate(stdin, timeout=timeout)
    except subprocess.TimeoutExpired:
        timed_out = True
        try:
            os.killpg(p.pid, signal.SIGKILL)
        except OSError:
            pass
        out, err = p.communicate()
    finally:
        if out_fh:
            out_fh.close()
    wall = time.time() - t0
    rc = p.returncode
    if out_fh:
        if stdout_path in ("/dev/full", "/dev/null"):
            out = b""
        else:
            with open(stdout_path, "rb") as fh:
                out = fh.read()
    ru1 = resource.getrusage(resource.RUSAGE_CHILDREN).ru_maxrss
    status, sig = (rc, None) if rc >= 0 else (None, -rc)
    return Result(list(argv), status, sig, out or b"", err or b"", timed_out, wall, max(ru0, ru1))


def run_closing_pipe(argv, cwd, stdin=None, read_bytes=0, timeout=TIMEOUT, executable=None):
    """Run argv with stdout on a pipe (capacity one page) whose reader takes `read_bytes` bytes and then closes;
    SIGPIPE is ignored in the child (as under `trap '' PIPE`, nohup-style wrappers, many daemons), so the writes fail
    with EPIPE instead of killing the process.  Returns (Result, pipe capacity)."""
    import fcntl
    rd, wr = os.pipe()
    try:
        cap = fcntl.fcntl(wr, 1031, 4096)        # F_SETPIPE_SZ
    except OSError:
        cap = 65536
    if read_bytes == 0:
        os.close(rd)
        rd = None
    base = _preexec(None, None)

    def pre():
        base()
        signal.signal(signal.SIGPIPE, signal.SIG_IGN)
    t0 = time.time()
    stdin_fh = None
    if stdin is not None:
        # standard input comes from an unlinked temporary file (a pipe fed by us could dead-lock against the full
        # stdout pipe)
        stdin_fh = tempfile.TemporaryFile(dir=WORK_ROOT)
        stdin_fh.write(stdin)
        stdin_fh.seek(0)
    p = subprocess.Popen(argv, cwd=cwd, env=dict(BASE_ENV), executable=executable,
                         stdin=stdin_fh if stdin_fh is not None else subprocess.DEVNULL,
                         stdout=wr, stderr=subprocess.PIPE, preexec_fn=pre)
    os.close(wr)
    if stdin_fh is not None:
        stdin_fh.close()
    got = bytearray()
    if rd is not None:
        while len(got) < read_bytes:
            chunk = os.read(rd, read_bytes - len(got))
            if not chunk:
                break
            got += chunk
        os.close(rd)
    timed_out = False
    try:
        _, err = p.communicate(None, timeout=timeout)
    except subprocess.TimeoutExpired:
        timed_out = True
        try:
            os.killpg(p.pid, signal.SIGKILL)
        except OSError:
            pass
        _, err = p.communicate()
    rc = p.returncode
    status, sig = (rc, None) if rc >= 0 else (None, -rc)
    return Result(list(argv), status, sig, bytes(got), err or b"", timed_out, time.time() - t0, 0), cap


def confirm_timeout(argv, cwd, **kw):
    """A time-out only counts after three more time-outs in a row."""
    for _ in range(3):
        r = run(argv, cwd, **kw)
        if not r.timed_out:
            return False
    return True


class Sandbox:
    """A fresh directory under WORK_ROOT, removed on exit."""

    def __init__(self, tag="case"):
        os.makedirs(WORK_ROOT, exist_ok=True)
        self.path = tempfile.mkdtemp(prefix=tag + "-", dir=WORK_ROOT)

    def __enter__(self):
        return self

    def __exit__(self, *a):
        shutil.rmtree(self.path, ignore_errors=True)

    def file(self, name, data):
        p = os.path.join(self.path, name)
        os.makedirs(os.path.dirname(p), exist_ok=True)
        with open(p, "wb") as fh:
            fh.write(data)
        return p

    def mkdir(self, name):
        p = os.path.join(self.path, name)
        os.makedirs(p, exist_ok=True)
        return p


def run_pty(argv, cwd, env_extra=None, timeout=TIMEOUT):
    """Run argv with stdout on a pseudo-terminal (isatty() true, output
    post-processing off so bytes arrive unchanged)."""
    import pty
    import select
    import termios
    env = dict(BASE_ENV)
    if env_extra:
        env.update(env_extra)
    master, slave = pty.openpty()
    attrs = termios.tcgetattr(slave)
    attrs[1] = attrs[1] & ~termios.OPOST          # no NL -> CRNL translation
    termios.tcsetattr(slave, termios.TCSANOW, attrs)
    t0 = time.time()
    p = subprocess.Popen(argv, cwd=cwd, env=env, stdin=subprocess.DEVNULL, stdout=slave, stderr=subprocess.PIPE,
                         preexec_fn=_preexec(None, None))
    os.close(slave)
    out = bytearray()
    err = bytearray()
    timed_out = False
    fds = {master: out, p.stderr.fileno(): err}
    while fds:
        left = timeout - (time.time() - t0)
        if left <= 0:
            timed_out = True
            try:
                os.killpg(p.pid, signal.SIGKILL)
            except OSError:
                pass
            break
        r, _, _ = select.select(list(fds), [], [], min(left, 1.0))
        for fd in r:
            try:
                chunk = os.read(fd, 65536)
            except OSError:
                chunk = b""
            if not chunk:
                del fds[fd]
            else:
                fds[fd] += chunk
    p.wait()
    os.close(master)
    p.stderr.close()
    rc = p.returncode
    status, sig = (rc, None) if rc >= 0 else (None, -rc)
    return Result(list(argv), status, sig, bytes(out), bytes(err), timed_out, time.time() - t0, 0)
